import TemplVerif.Drive.Common
import TemplVerif.Model.Children
namespace TemplVerif.Drive.C13
open TemplVerif TemplVerif.Drive TemplVerif.Children

def takeNat (cs : List Char) : Option (Nat × List Char) :=
  let ds := cs.takeWhile Char.isDigit
  if ds.isEmpty then none else (String.ofList ds).toNat?.map fun n => (n, cs.drop ds.length)

/-- Parser for the harness's term encoding. -/
def parseTerm : Nat → List Char → Option (Term × List Char)
  | 0, _ => none
  | fuel + 1, cs =>
    match cs with
    | 'U' :: r => (takeNat r).map fun (n, r') => (.use n, r')
    | 'I' :: r => (takeNat r).map fun (n, r') => (.ignore n, r')
    | 'T' :: r => (takeNat r).map fun (n, r') => (.twice n, r')
    | 'H' :: r => (takeNat r).map fun (n, r') => (.handIgnore n, r')
    | 'C' :: r => some (.handChildren, r)
    | 'F' :: r => some (.flush, r)
    | 'N' :: '(' :: r => do
      let (x, r1) ← parseTerm fuel r
      match r1 with | ')' :: r2 => pure (.noBlock x, r2) | _ => none
    | 'W' :: '(' :: r => do
      let (x, r1) ← parseTerm fuel r
      match r1 with | ')' :: r2 => pure (.forward x, r2) | _ => none
    | 'B' :: '(' :: r => do
      let (x, r1) ← parseTerm fuel r
      match r1 with
      | ',' :: r2 => do
        let (m, r3) ← takeNat r2
        match r3 with
        | ',' :: r4 => do
          let (inner, r5) ← parseTerm fuel r4
          match r5 with | ')' :: r6 => pure (.withBlock x m inner, r6) | _ => none
        | _ => none
      | _ => none
    | 'S' :: '(' :: r => do
      let (a, r1) ← parseTerm fuel r
      match r1 with
      | ',' :: r2 => do
        let (b, r3) ← parseTerm fuel r2
        match r3 with | ')' :: r4 => pure (.seq a b, r4) | _ => none
      | _ => none
    | 'J' :: '(' :: r => do
      let (a, r1) ← parseTerm fuel r
      match r1 with
      | ',' :: r2 => do
        let (b, r3) ← parseTerm fuel r2
        match r3 with | ')' :: r4 => pure (.join a b, r4) | _ => none
      | _ => none
    | 'O' :: '(' :: r => do
      let (h, r1) ← takeNat r
      match r1 with
      | ',' :: '-' :: ')' :: r2 => pure (.once h none, r2)
      | ',' :: r2 => do
        let (f, r3) ← parseTerm fuel r2
        match r3 with | ')' :: r4 => pure (.once h (some f), r4) | _ => none
      | _ => none
    | _ => none

def canon (b : Bytes) : Bytes := b.filter fun c => c != 32 && c != 10 && c != 9

/-- Structural signature of a tree: which hazardous shapes it contains (used to match known findings). -/
partial def shapes : Term → List String
  | .withBlock c _ inner =>
    (match c with
     | .once _ none => ["once{…}"] | .flush => ["flush{…}"] | .handChildren => ["hand-children{…}"]
     | .handIgnore _ => ["hand-ignores-block"] | .ignore _ => [] | _ => []) ++ shapes c ++ shapes inner
  | .noBlock c => shapes c
  | .forward c => shapes c
  | .seq a b => shapes a ++ shapes b
  | .join a b => shapes a ++ shapes b
  | .once _ (some f) => shapes f
  | _ => []

def handle : List String → Verdict
  | ["tree", enc, outH] =>
    match parseTerm (enc.length + 1) enc.toList, hexField outH with
    | some (t, []), some out =>
      let fuel := 4 * enc.length + 8
      let model := canon (exec fuel t {}).2.1
      let spec := canon (denote fuel t none []).2.1
      let sh := (shapes t).eraseDups
      { mismatch := if model == out then none else some s!"impl={String.ofList (out.map fun c => Char.ofNat c.toNat)} model={String.ofList (model.map fun c => Char.ofNat c.toNat)}",
        predfail := if spec == out then none else
          some s!"a component received a block that is not its call site's: got {String.ofList (out.map fun c => Char.ofNat c.toNat)} want {String.ofList (spec.map fun c => Char.ofNat c.toNat)}",
        nontrivial := enc.contains 'B' || enc.contains 'W',
        tags := ["tree"] ++ sh, sig := "tree;" ++ String.intercalate "+" sh }
    | _, _ => .badOp
  | ["layer", name, wantH, gotH] =>
    match hexField wantH, hexField gotH with
    | some want, some got =>
      let show_ := fun (b : Bytes) => String.ofList (b.map fun c => Char.ofNat c.toNat)
      { predfail := if want == got then none else some s!"hand-written layer ({name}): callees did not get the blocks of their own calls: {show_ got} instead of {show_ want}",
        nontrivial := true, tags := ["layer:" ++ name], sig := "layer;" ++ name }
    | _, _ => .badOp
  | ["evalcount", name, callsS, outH] =>
    match callsS.toNat?, hexField outH with
    | some calls, some out =>
      -- each evaluation of the block's call shows as `<evK>`; K counts the evaluations in order
      let marks := Bytes.countInfix [60, 101, 118] out        -- "<ev"
      let inOrder := (List.range calls).all fun k => Bytes.hasInfix ([60, 101, 118] ++ (toString (k + 1)).toUTF8.toList ++ [62]) out
      { predfail := if marks == calls && inOrder then none else
          some s!"callee {name}: the single call of the block was evaluated {calls} time(s) but its slot was rendered {marks} time(s): {String.ofList (out.map fun c => Char.ofNat c.toNat)}",
        nontrivial := true, tags := ["evalcount:" ++ name], sig := "evalcount;" ++ name }
    | _, _ => .badOp
  | _ => .badOp

end TemplVerif.Drive.C13
