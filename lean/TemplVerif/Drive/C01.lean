import TemplVerif.Drive.Common
import TemplVerif.Spec.HtmlTok
import TemplVerif.Model.Attrs
import TemplVerif.Model.Expect
import TemplVerif.Drive.AstParse
namespace TemplVerif.Drive.C01
open TemplVerif TemplVerif.Drive TemplVerif.HtmlTok TemplVerif.Attrs TemplVerif.Sem

/-- x/net/html normalises CR and CRLF to LF in text and attribute values; the WHATWG input-stream
    preprocessing does the same for any document, so the comparison is modulo that. -/
def convertNewlines : Bytes → Bytes
  | 13 :: 10 :: rest => 10 :: convertNewlines rest
  | 13 :: rest => 10 :: convertNewlines rest
  | b :: rest => b :: convertNewlines rest
  | [] => []

def serAttrs (as : List (Bytes × Bytes)) : String :=
  String.intercalate "," (as.map fun (k, v) => Bytes.toHex k ++ "=" ++ Bytes.toHex (convertNewlines v))

def serToken : Token → String
  | .text b => "T:" ++ Bytes.toHex (convertNewlines b) ++ ";"
  | .startTag n as sc => "S:" ++ Bytes.toHex n ++ ":" ++ serAttrs as ++ (if sc then ":1;" else ":0;")
  | .endTag n => "E:" ++ Bytes.toHex n ++ ";"
  | .comment b => "C:" ++ Bytes.toHex (convertNewlines b) ++ ";"
  | .doctype b => "D:" ++ Bytes.toHex b ++ ";"

def serTokens (ts : List Token) : String :=
  if ts.isEmpty then "-" else String.join (ts.map serToken)

/-- Replace the first occurrence of `pat` in `s` by `by_`. -/
def replaceFirst (pat by_ : Bytes) : Bytes → Bytes
  | [] => []
  | b :: rest => if List.isPrefixOf pat (b :: rest) then by_ ++ (b :: rest).drop pat.length else b :: replaceFirst pat by_ rest

def substToken (m s : Bytes) (structureOnly : Bool) : Token → Token
  | .text b => .text (if structureOnly && Bytes.hasInfix m b then [] else replaceFirst m s b)
  | .startTag n as sc => .startTag n (as.map fun (k, v) => (k, if structureOnly then [] else replaceFirst m s v)) sc
  | t => t

def blankValues (structureOnly : Bool) : Token → Token
  | .startTag n as sc => .startTag n (as.map fun (k, v) => (k, if structureOnly then [] else v)) sc
  | t => t

def parseAttrVal (fs : List String) : Option AttrVal :=
  match fs with
  | ["s", v] => (hexField v).map .str
  | ["sp", v] => (hexField v).map fun b => .strPtr (some b)
  | ["spn"] => some (.strPtr none)
  | ["b", b] => some (.bool (b == "true"))
  | ["bp", b] => some (.boolPtr (some (b == "true")))
  | ["bpn"] => some (.boolPtr none)
  | ["ksb", k, b] => (hexField k).map fun kb => .kvStrBool kb (b == "true")
  | ["kbb", a, b] => some (.kvBoolBool (a == "true") (b == "true"))
  | ["fn", b] => some (.fn (b == "true"))
  | ["o"] => some .other
  | _ => none

def parseAttrs (s : String) : Option (List (Bytes × AttrVal)) :=
  if s == "-" then some [] else
  (s.splitOn ",").mapM fun item =>
    match item.splitOn ":" with
    | k :: rest => do
      let kb ← hexField k
      let v ← parseAttrVal rest
      pure (kb, v)
    | _ => none

def handle : List String → Verdict
  | ["esc", sH, outH] =>
    match hexField sH, hexField outH with
    | some s, some out =>
      let model := Html.escape s
      let ok := out.all (fun b => !Html.structural b) && Html.decodeRefs out == s
      { mismatch := if model == out then none else some s!"impl={Bytes.toHex out} model={Bytes.toHex model}",
        predfail := if ok then none else some "escaped output contains a structural byte or does not decode to the input",
        nontrivial := s.any (fun b => Html.structural b || b == 38),
        tags := ["esc"], sig := "esc" }
    | _, _ => .badOp
  | ["sink", kind, mode, sH, mH, docSH, docMH, refToks] =>
    match hexField sH, hexField mH, hexField docSH, hexField docMH with
    | some s, some m, some docS, some docM =>
      let structureOnly := mode == "structure"
      let tS := tokenize docS
      let tM := tokenize docM
      let want := tM.map (substToken m s structureOnly)
      let got := tS.map (blankValues structureOnly)
      -- U+0000 in character data is replaced by U+FFFD in the RCDATA states (and dropped or replaced by the tree
      -- builder elsewhere): compare modulo the browser's NUL handling, like CR normalisation.
      let normNul : Token → Token := fun t => match t with | .text b => .text (nulToFFFD b) | t => t
      let got' := got.map normNul
      let want := want.map normNul
      let ok := got' == want
      let specSer := serTokens tS
      { mismatch := if specSer == refToks then none else
          some s!"tokenizer spec disagrees with x/net/html: spec={specSer} ref={refToks}",
        predfail := if ok then none else
          some s!"token stream differs from the author's markup with the value substituted: got={serTokens got'} want={serTokens want}",
        nontrivial := s.any (fun b => Html.structural b || b == 38 || b == 37 || b == 0 || b ≥ 128),
        tags := ["sink:" ++ kind], sig := s!"sink;{kind}" }
    | _, _, _, _ => .badOp
  | ["attrs", enc, outS] =>
    match parseAttrs enc with
    | some attrs =>
      let model := renderAttributes attrs
      let out? := if outS == "ERR" then none else hexField outS
      match out? with
      | none => { mismatch := some "impl returned an error", tags := ["attrs"], sig := "attrs;error" }
      | some out =>
        -- property side: tokenizing `<p` ++ out ++ `>` gives exactly the attributes the map denotes, values verbatim
        let toks := tokenize ([60, 112] ++ out ++ [62])
        let expect : List (Bytes × Bytes) := (sortByKey attrs).filterMap fun (k, v) =>
          match v with
          | .str x => some (k, x) | .strPtr (some x) => some (k, x) | .kvStrBool x true => some (k, x)
          | .bool true => some (k, []) | .boolPtr (some true) => some (k, []) | .kvBoolBool true true => some (k, [])
          | .fn true => some (k, []) | _ => none
        let niceKeys := attrs.all fun (k, _) => k.all fun b => (97 ≤ b && b ≤ 122) || b == 45
        let ok := !niceKeys || toks == [Token.startTag [112] expect false]
        { mismatch := if model == out then none else some s!"impl={Bytes.toHex out} model={Bytes.toHex model}",
          predfail := if ok then none else some s!"spread attributes tokenize to {serTokens toks}",
          nontrivial := attrs.length > 0, tags := ["attrs"], sig := "attrs" }
    | none => .badOp
  | ["jsonopen", idH, tyH, nonceH, openH, _docH] =>
    match hexField idH, hexField tyH, hexField nonceH, hexField openH with
    | some id, some ty, some nonce, some opn =>
      let model := jsonScriptOpen id ty nonce
      let toks := (run {} opn).out
      let expect := [Token.startTag [115, 99, 114, 105, 112, 116]
        ((if id.isEmpty then [] else [([105, 100], id)]) ++ (if ty.isEmpty then [] else [([116, 121, 112, 101], ty)]) ++
         (if nonce.isEmpty then [] else [([110, 111, 110, 99, 101], nonce)])) false]
      { mismatch := if model == opn then none else some s!"impl={Bytes.toHex opn} model={Bytes.toHex model}",
        predfail := if toks == expect then none else some s!"JSON script open tag tokenizes to {serTokens toks}",
        nontrivial := true, tags := ["jsonopen"], sig := "jsonopen" }
    | _, _, _, _ => .badOp
  | ["gohtml", sH, wantH, gotH] =>
    match hexField sH, hexField wantH, hexField gotH with
    | some _s, some want, some got =>
      { predfail := if want == got then none else
          some s!"a fragment converted with templ.ToGoHTML changed after other components were rendered: {serTokens (tokenize got)} instead of {serTokens (tokenize want)}",
        nontrivial := true, tags := ["gohtml"], sig := "gohtml" }
    | _, _, _ => .badOp
  -- composition (Props/C01: C01_compose): a whole generated template of the markup fragment, rendered by the real
  -- generator + compiler + runtime; the tokenizer must read the real bytes as the author's token stream.
  | ["build", errH, _srcH] =>
    match hexField errH with
    | some [] => { nontrivial := true, tags := ["compose-batch-compiles"], sig := "build" }
    | some e => { mismatch := some s!"the batch of markup templates for the composition check did not build or run: {(String.ofList (e.map fun (c : UInt8) => Char.ofNat c.toNat)).take 600}",
                  nontrivial := true, tags := ["compose-batch-broken"], sig := "build;broken" }
    | none => .badOp
  | ["compose", astS, envS, outH, errH, _traceS, _srcH] =>
    match AstParse.body astS, AstParse.env envS, hexField outH, hexField errH with
    | some body, some env, some out, some errMsg =>
      if !Expect.nodesOK body then { skipped := true, tags := ["compose-outside-fragment"] } else
      let d := Denote.run body env
      if d.stuck then { skipped := true, tags := ["compose-outside-vocabulary"] } else
      if !errMsg.isEmpty || d.err then
        { mismatch := if d.err == !errMsg.isEmpty then none else some s!"composition: model error={d.err}, rendered error={!errMsg.isEmpty}",
          tags := ["compose-render-error"], sig := "compose;error" } else
      let toks := tokenize out
      let want := Expect.tokens body env
      let holes := env.any fun (_, en) => match en.val with
        | .str v _ => v.any (fun b => Html.structural b || b == 38)
        | _ => false
      { mismatch := if d.out == out then none else some "composition: the denotation writes a different document than the compiled template (see C02)",
        predfail := if toks == want then none else
          some s!"the tokenizer does not read the rendered template as the author's token stream: got={serTokens toks} want={serTokens want}",
        nontrivial := holes && toks.length > 1,
        tags := ["compose", if toks.length > 8 then "compose-tokens-over-8" else "compose-tokens-upto-8"], sig := "compose" }
    | _, _, _, _ => .badOp
  | _ => .badOp

end TemplVerif.Drive.C01
