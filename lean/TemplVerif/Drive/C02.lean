import TemplVerif.Drive.AstParse
import TemplVerif.Model.Gen
import TemplVerif.Model.Denote
namespace TemplVerif.Drive.C02
open TemplVerif TemplVerif.Drive TemplVerif.Sem

def str (b : Bytes) : String := String.ofList (b.map fun (c : UInt8) => Char.ofNat c.toNat)

def firstDiff (a b : Bytes) : String :=
  let n := (List.zip a b).takeWhile (fun p => p.1 == p.2) |>.length
  s!"at byte {n}: …{str ((a.drop (n - 30)).take 30)}⟦{str ((a.drop n).take 40)}⟧ vs ⟦{str ((b.drop n).take 40)}⟧"

def showTrace (t : List Bytes) : String := " ".intercalate (t.map str)

def handle : List String → Verdict
  | ["build", errH, _srcH] =>
    match hexField errH with
    | some [] => { nontrivial := true, tags := ["batch-compiles"], sig := "build" }
    | some e => { predfail := some s!"the Go code generated for an accepted batch of templates does not compile (or the batch did not run): {(str e).take 900}",
                  nontrivial := true, tags := ["batch-broken"], sig := "build;broken" }
    | none => .badOp
  | ["render", astS, envS, outH, errH, traceS, _srcH] =>
    match AstParse.body astS, AstParse.env envS, hexField outH, hexField errH, AstParse.keysOf traceS with
    | some body, some env, some out, some errMsg, some trace =>
      let m := Gen.run body env
      let d := Denote.run body env
      let dAll := Denote.runHoistAll body env
      if m.stuck || d.stuck then { skipped := true, tags := ["outside-vocabulary"] } else
      let implErr := !errMsg.isEmpty
      let panicked := (str errMsg).startsWith "panic"
      let cmp := fun (s : St) (what : String) =>
        if s.out != out then some s!"{what} writes a different document, {firstDiff out s.out} (rendered vs {what})"
        else if s.err != implErr then some s!"{what}: error={s.err}, rendered: {str errMsg}"
        else if s.trace != trace then some s!"{what} evaluates [{showTrace s.trace}], the compiled code evaluated [{showTrace trace}]"
        else none
      let hoisty := !Denote.Nodes.hoistFree body
      { mismatch := cmp m "the model of the generated code",
        predfail := if panicked then some s!"rendering panicked: {str errMsg}" else cmp d "the template's denotation",
        nontrivial := trace.length > 1,
        tags := [if implErr then "render-error" else "render-ok", if hoisty then "cond-hoist" else "hoist-free",
                 if out.length > 200 then "doc-over-200" else "doc-upto-200"],
        -- the one deviation on record: the document / trace is exactly the denotation with unconditional announcing
        sig := "render" ++ (if hoisty && (cmp dAll "").isNone then ";cond-hoist-evaluated-unreached" else "") }
    | _, _, _, _, _ => .badOp
  | _ => .badOp

end TemplVerif.Drive.C02
