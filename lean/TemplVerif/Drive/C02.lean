import TemplVerif.Drive.AstParse
import TemplVerif.Model.Gen
import TemplVerif.Model.Denote
namespace TemplVerif.Drive.C02
open TemplVerif TemplVerif.Drive TemplVerif.Sem

def str (b : Bytes) : String := String.ofList (b.map fun (c : UInt8) => Char.ofNat c.toNat)

def firstDiff (a b : Bytes) : String :=
  let n := (List.zip a b).takeWhile (fun p => p.1 == p.2) |>.length
  s!"at byte {n}: …{str ((a.drop (n - 30)).take 30)}⟦{str ((a.drop n).take 40)}⟧ vs ⟦{str ((b.drop n).take 40)}⟧"

def showTrace (t : List Bytes) : String := " ".intercalate (t.map str)

def handle : List String → Verdict
  | ["build", errH, _srcH] =>
    match hexField errH with
    | some [] => { nontrivial := true, tags := ["batch-compiles"], sig := "build" }
    | some e => { predfail := some s!"the Go code generated for an accepted batch of templates does not compile (or the batch did not run): {(str e).take 900}",
                  nontrivial := true, tags := ["batch-broken"], sig := "build;broken" }
    | none => .badOp
  | ["render", astS, envS, outH, errH, traceS, _srcH] =>
    match AstParse.body astS, AstParse.env envS, hexField outH, hexField errH, AstParse.keysOf traceS with
    | some body, some env, some out, some errMsg, some trace =>
      let m := Gen.run body env
      let d := Denote.run body env
      let dAll := Denote.runHoistAll body env
      if m.stuck || d.stuck then { skipped := true, tags := ["outside-vocabulary"] } else
      let implErr := !errMsg.isEmpty
      let panicked := (str errMsg).startsWith "panic"
      let cmp := fun (s : St) (what : String) =>
        if s.out != out then some s!"{what} writes a different document, {firstDiff out s.out} (rendered vs {what})"
        else if s.err != implErr then some s!"{what}: error={s.err}, rendered: {str errMsg}"
        else if s.trace != trace then some s!"{what} evaluates [{showTrace s.trace}], the compiled code evaluated [{showTrace trace}]"
        else none
      let hoisty := !Denote.Nodes.hoistFree body
      { mismatch := cmp m "the model of the generated code",
        predfail := if panicked then some s!"rendering panicked: {str errMsg}" else cmp d "the template's denotation",
        nontrivial := trace.length > 1,
        tags := [if implErr then "render-error" else "render-ok", if hoisty then "cond-hoist" else "hoist-free",
                 if out.length > 200 then "doc-over-200" else "doc-upto-200"],
        -- the one deviation on record: the document / trace is exactly the denotation with unconditional announcing
        sig := "render" ++ (if hoisty && (cmp dAll "").isNone then ";cond-hoist-evaluated-unreached" else "") }
    | _, _, _, _, _ => .badOp
  -- markup without Go expressions: the document is written out by hand in the template's `// EXPECT:<hex>` comment
  | ["static", _astS, _envS, outH, errH, _traceS, srcH] =>
    match hexField outH, hexField errH, hexField srcH with
    | some out, some errMsg, some src =>
      let tag := Bytes.ofString "// EXPECT:"
      let keyTag := Bytes.ofString "// KEY:"
      let rec findKey (fuel : Nat) (s : Bytes) : Bytes :=
        match fuel, s with
        | 0, _ => []
        | _, [] => []
        | fuel + 1, b :: rest => if List.isPrefixOf keyTag (b :: rest) then (((b :: rest).drop keyTag.length).takeWhile (· != 10)) else findKey fuel rest
      let key := findKey (src.length + 1) src
      let rec find (fuel : Nat) (s : Bytes) : Option Bytes :=
        match fuel, s with
        | 0, _ => none
        | _, [] => none
        | fuel + 1, b :: rest => if List.isPrefixOf tag (b :: rest) then some (((b :: rest).drop tag.length).takeWhile (· != 10)) else find fuel rest
      match (find (src.length + 1) src).bind (fun h => Bytes.ofHex (str h)) with
      | some want =>
        { predfail := if errMsg.isEmpty && out == want then none else
            some s!"static markup rendered as {str out} (error: {str errMsg}); the template denotes {str want}",
          nontrivial := true, tags := ["static"], sig := if key.isEmpty then "static" else "static;" ++ str key }
      | none => .badOp
    | _, _, _ => .badOp
  | _ => .badOp

end TemplVerif.Drive.C02
