import TemplVerif.Model.Html
/-
Specification: the fragment of the WHATWG HTML tokenizer that templ output can reach (data, tag open,
end tag open, tag name, attribute states incl. the three value forms, self-closing, comments / doctype
simplified to "until -->" / "until >", RCDATA / RAWTEXT / script data simplified to "until the appropriate
end tag"). Written from the standard; cross-checked against golang.org/x/net/html's tokenizer in the
correspondence run. Text and attribute values are kept raw in the state and character references are
decoded when a token is emitted.
-/
namespace TemplVerif.HtmlTok
open TemplVerif

inductive Token
  | text (b : Bytes)
  | startTag (name : Bytes) (attrs : List (Bytes × Bytes)) (selfClosing : Bool)
  | endTag (name : Bytes)
  | comment (b : Bytes)
  | doctype (b : Bytes)
deriving Repr, DecidableEq, BEq

inductive St
  | data | tagOpen | endTagOpen | tagName | beforeAttrName | attrName | afterAttrName
  | beforeAttrValue | attrDQ | attrSQ | attrUQ | afterAttrValueQ | selfClosingStart
  | bang | bangDash | comment | commentDash | commentDashDash | bogus | doctypeSt
  | raw | rawLt | rawEndOpen
deriving Repr, DecidableEq, BEq

structure S where
  st : St := .data
  text : Bytes := []                      -- pending raw character data
  name : Bytes := []                      -- tag name under construction
  isEnd : Bool := false
  attrs : List (Bytes × Bytes) := []      -- finished attributes (raw values), in order
  an : Bytes := []                        -- attribute name under construction
  av : Bytes := []                        -- attribute value under construction (raw)
  hasAttr : Bool := false
  acc : Bytes := []                       -- comment / doctype / candidate end tag name accumulator
  rawName : Bytes := []                   -- element whose raw text we are in
  rawDecode : Bool := false               -- RCDATA (decode references) vs RAWTEXT / script data
  out : List Token := []                  -- emitted tokens, most recent first
deriving Repr

def isWs (b : UInt8) : Bool := b == 9 || b == 10 || b == 12 || b == 32 || b == 13
def isAlpha (b : UInt8) : Bool := (65 ≤ b && b ≤ 90) || (97 ≤ b && b ≤ 122)
def lower (b : UInt8) : UInt8 := if 65 ≤ b && b ≤ 90 then b + 32 else b

def rcdataNames : List Bytes := [[116, 101, 120, 116, 97, 114, 101, 97], [116, 105, 116, 108, 101]] -- textarea title
def rawtextNames : List Bytes :=
  [[115, 99, 114, 105, 112, 116], [115, 116, 121, 108, 101], [120, 109, 112], [105, 102, 114, 97, 109, 101],
   [110, 111, 101, 109, 98, 101, 100], [110, 111, 102, 114, 97, 109, 101, 115], [110, 111, 115, 99, 114, 105, 112, 116]]
   -- script style xmp iframe noembed noframes noscript

def flushText (s : S) (decode : Bool := true) : S :=
  if s.text.isEmpty then s
  else { s with text := [], out := Token.text (if decode then Html.decodeRefs s.text else s.text) :: s.out }

/-- RCDATA, RAWTEXT and script data states emit U+FFFD for U+0000. -/
def nulToFFFD : Bytes → Bytes
  | [] => []
  | b :: rest => if b == 0 then 0xEF :: 0xBF :: 0xBD :: nulToFFFD rest else b :: nulToFFFD rest

def flushRawText (s : S) : S := flushText { s with text := nulToFFFD s.text } s.rawDecode

def finishAttr (s : S) : S :=
  if s.hasAttr then { s with attrs := s.attrs ++ [(s.an, Html.decodeRefs s.av)], an := [], av := [], hasAttr := false }
  else s

/-- Emit the tag under construction and choose the next state (raw text elements switch content model). -/
def emitTag (s0 : S) (selfClosing : Bool) : S :=
  let s := finishAttr s0
  if s.isEnd then
    { s with st := .data, out := Token.endTag s.name :: s.out, name := [], attrs := [], isEnd := false }
  else
    let tok := Token.startTag s.name s.attrs selfClosing
    let s' := { s with out := tok :: s.out, attrs := [], isEnd := false }
    if rcdataNames.contains s.name then { s' with st := .raw, rawName := s.name, rawDecode := true, name := [] }
    else if rawtextNames.contains s.name then { s' with st := .raw, rawName := s.name, rawDecode := false, name := [] }
    else { s' with st := .data, name := [] }

def dataStep (s : S) (b : UInt8) : S :=
  if b == 60 then { s with st := .tagOpen } else { s with st := .data, text := s.text ++ [b] }

def attrNameStep (s : S) (b : UInt8) : S :=
  if isWs b then { s with st := .afterAttrName }
  else if b == 47 then { finishAttr s with st := .selfClosingStart }
  else if b == 62 then emitTag s false
  else if b == 61 then { s with st := .beforeAttrValue }
  else { s with st := .attrName, an := s.an ++ [lower b] }

def startAttr (s : S) : S := { finishAttr s with hasAttr := true, an := [], av := [] }

def beforeAttrNameStep (s : S) (b : UInt8) : S :=
  if isWs b then { s with st := .beforeAttrName }
  else if b == 47 then { finishAttr s with st := .selfClosingStart }
  else if b == 62 then emitTag s false
  else if b == 61 then { startAttr s with st := .attrName, an := [61] }
  else attrNameStep (startAttr s) b

def attrUQStep (s : S) (b : UInt8) : S :=
  if isWs b then { finishAttr s with st := .beforeAttrName }
  else if b == 62 then emitTag s false
  else { s with st := .attrUQ, av := s.av ++ [b] }

def step (s : S) (b : UInt8) : S :=
  match s.st with
  | .data => dataStep s b
  | .tagOpen =>
    if b == 33 then { flushText s with st := .bang, acc := [] }
    else if b == 47 then { s with st := .endTagOpen }
    else if isAlpha b then { flushText s with st := .tagName, name := [lower b], isEnd := false, attrs := [], hasAttr := false }
    else if b == 63 then { flushText s with st := .bogus, acc := [63] }
    else dataStep { s with text := s.text ++ [60] } b
  | .endTagOpen =>
    if isAlpha b then { flushText s with st := .tagName, name := [lower b], isEnd := true, attrs := [], hasAttr := false }
    else if b == 62 then { s with st := .data }
    else { flushText s with st := .bogus, acc := [b] }
  | .tagName =>
    if isWs b then { s with st := .beforeAttrName }
    else if b == 47 then { s with st := .selfClosingStart }
    else if b == 62 then emitTag s false
    else { s with name := s.name ++ [lower b] }
  | .beforeAttrName => beforeAttrNameStep s b
  | .attrName => attrNameStep s b
  | .afterAttrName =>
    if isWs b then s
    else if b == 47 then { finishAttr s with st := .selfClosingStart }
    else if b == 61 then { s with st := .beforeAttrValue }
    else if b == 62 then emitTag s false
    else attrNameStep (startAttr s) b
  | .beforeAttrValue =>
    if isWs b then s
    else if b == 34 then { s with st := .attrDQ }
    else if b == 39 then { s with st := .attrSQ }
    else if b == 62 then emitTag s false
    else attrUQStep s b
  | .attrDQ => if b == 34 then { finishAttr s with st := .afterAttrValueQ } else { s with av := s.av ++ [b] }
  | .attrSQ => if b == 39 then { finishAttr s with st := .afterAttrValueQ } else { s with av := s.av ++ [b] }
  | .attrUQ => attrUQStep s b
  | .afterAttrValueQ =>
    if isWs b then { s with st := .beforeAttrName }
    else if b == 47 then { s with st := .selfClosingStart }
    else if b == 62 then emitTag s false
    else beforeAttrNameStep s b
  | .selfClosingStart =>
    if b == 62 then emitTag s true else beforeAttrNameStep s b
  | .bang =>
    if b == 45 then { s with st := .bangDash }
    else if b == 62 then { s with st := .data, out := Token.comment [] :: s.out }
    else { s with st := .doctypeSt, acc := [b] }
  | .bangDash =>
    if b == 45 then { s with st := .comment, acc := [] }
    else if b == 62 then { s with st := .data, out := Token.comment [45] :: s.out }
    else { s with st := .bogus, acc := [45, b] }
  | .comment => if b == 45 then { s with st := .commentDash } else { s with acc := s.acc ++ [b] }
  | .commentDash =>
    if b == 45 then { s with st := .commentDashDash } else { s with st := .comment, acc := s.acc ++ [45, b] }
  | .commentDashDash =>
    if b == 62 then { s with st := .data, out := Token.comment s.acc :: s.out, acc := [] }
    else if b == 45 then { s with acc := s.acc ++ [45] }
    else { s with st := .comment, acc := s.acc ++ [45, 45, b] }
  | .bogus =>
    if b == 62 then { s with st := .data, out := Token.comment s.acc :: s.out, acc := [] }
    else { s with acc := s.acc ++ [b] }
  | .doctypeSt =>
    if b == 62 then { s with st := .data, out := Token.doctype s.acc :: s.out, acc := [] }
    else { s with acc := s.acc ++ [b] }
  | .raw => if b == 60 then { s with st := .rawLt } else { s with text := s.text ++ [b] }
  | .rawLt =>
    if b == 47 then { s with st := .rawEndOpen, acc := [] }
    else if b == 60 then { s with text := s.text ++ [60] }
    else { s with st := .raw, text := s.text ++ [60, b] }
  | .rawEndOpen =>
    if isAlpha b then { s with acc := s.acc ++ [b] }
    else if (isWs b || b == 47 || b == 62) && s.acc.map lower == s.rawName then
      let s1 := { flushRawText s with name := s.rawName, isEnd := true, attrs := [], hasAttr := false, acc := [] }
      if b == 62 then emitTag s1 false
      else if b == 47 then { s1 with st := .selfClosingStart }
      else { s1 with st := .beforeAttrName }
    else if b == 60 then { s with st := .rawLt, text := s.text ++ [60, 47] ++ s.acc, acc := [] }
    else { s with st := .raw, text := s.text ++ [60, 47] ++ s.acc ++ [b], acc := [] }

def run (s : S) (bs : Bytes) : S := bs.foldl step s

/-- End of input: pending character data becomes a final text token. -/
def finish (s : S) : List Token :=
  let s' := match s.st with
    | .data => flushText s
    | .raw => flushRawText s
    | .tagOpen => flushText { s with text := s.text ++ [60] }
    | _ => s
  s'.out.reverse

def tokenize (bs : Bytes) : List Token := finish (run {} bs)

end TemplVerif.HtmlTok
