import TemplVerif.Base.Bytes
import TemplVerif.Model.Url
/-
Specification: a byte-level scanner for ONE CSS declaration, after CSS Syntax Level 3 ("consume a
declaration" / "consume a component value"): it tracks strings, unquoted url() tokens, comments, backslash
escapes and (), [], {} nesting and answers where the declaration that starts at the beginning of the input
ends. It is deliberately strict: anything that a conforming parser would treat as an error token that could
re-synchronise elsewhere (bad string, bad url, unmatched closer, a function other than url()) is reported
as `none` = "not safely one declaration". Written from the standard, independent of the sanitiser.
-/
namespace TemplVerif.Css
open TemplVerif

inductive Mode
  | normal
  | str (q : UInt8)
  | comment
  | url          -- inside an unquoted url( … token
  | urlEnd       -- after whitespace inside an unquoted url: only more whitespace or ')' may follow
  | badUrl       -- a non-printable code point inside an unquoted url: "consume the remnants of a bad url" (up to the
                 --   next unescaped ')'); the token has no value, nothing is fetched
deriving DecidableEq, Repr

structure St where
  mode : Mode := .normal
  stack : List UInt8 := []       -- expected closers, innermost first
  ident : Bytes := []            -- identifier characters seen immediately before this position (lower-cased)
  cur : Bytes := []              -- body of the url / string being read
  inUrlFn : Bool := false        -- the string being read is the argument of url("…")
  urls : List Bytes := []        -- url bodies seen so far
deriving Repr

def isNewline (b : UInt8) : Bool := b == 10 || b == 13 || b == 12
def isWs (b : UInt8) : Bool := b == 32 || b == 9 || isNewline b
def isIdentByte (b : UInt8) : Bool :=
  (97 ≤ b && b ≤ 122) || (65 ≤ b && b ≤ 90) || (48 ≤ b && b ≤ 57) || b == 45 || b == 95 || b ≥ 128
def lower (b : UInt8) : UInt8 := if 65 ≤ b && b ≤ 90 then b + 32 else b
def urlIdent : Bytes := [117, 114, 108]

inductive Out
  | continue (s : St)
  | done            -- the top-level ';' that ends the declaration
  | broken          -- not safely one declaration

/-- One scanning step on byte `b` with one byte of look-ahead `next`. `skip` = also consume `next`. -/
def step (s : St) (b : UInt8) (next : Option UInt8) : Out × Bool :=
  match s.mode with
  | .comment =>
    if b == 42 && next == some 47 then (.continue { s with mode := .normal, ident := [] }, true)
    else (.continue s, false)
  | .str q =>
    if b == q then
      let s' := { s with mode := .normal, ident := [], cur := [], inUrlFn := false,
                         urls := if s.inUrlFn then s.urls ++ [s.cur] else s.urls }
      (.continue s', false)
    else if isNewline b then (.broken, false)
    else if b == 92 then
      match next with
      | none => (.broken, false)
      | some n => if isNewline n then (.continue s, true) else (.continue { s with cur := s.cur ++ [n] }, true)
    else (.continue { s with cur := s.cur ++ [b] }, false)
  | .url =>
    if b == 41 then
      (.continue { s with mode := .normal, ident := [], urls := s.urls ++ [s.cur], cur := [], stack := s.stack.drop 1 }, false)
    else if isWs b then (.continue { s with mode := .urlEnd }, false)
    else if b == 34 || b == 39 || b == 40 then (.broken, false)
    else if b < 32 || b == 127 then (.continue { s with mode := .badUrl, cur := [] }, false)
    else if b == 92 then
      match next with
      | none => (.broken, false)
      | some n => if isNewline n then (.broken, false) else (.continue { s with cur := s.cur ++ [n] }, true)
    else (.continue { s with cur := s.cur ++ [b] }, false)
  | .badUrl =>
    if b == 41 then
      (.continue { s with mode := .normal, ident := [], cur := [], stack := s.stack.drop 1 }, false)
    else if b == 92 then
      match next with
      | none => (.broken, false)
      | some n => if isNewline n then (.continue s, false) else (.continue s, true)
    else (.continue s, false)
  | .urlEnd =>
    if b == 41 then
      (.continue { s with mode := .normal, ident := [], urls := s.urls ++ [s.cur], cur := [], stack := s.stack.drop 1 }, false)
    else if isWs b then (.continue s, false)
    else (.broken, false)
  | .normal =>
    if b == 59 && s.stack.isEmpty then (.done, false)
    else if b == 34 || b == 39 then
      -- a string directly after `url(` (optional whitespace) is that url's argument
      (.continue { s with mode := .str b, cur := [], ident := [] }, false)
    else if b == 47 && next == some 42 then (.continue { s with mode := .comment, ident := [] }, true)
    else if b == 92 then
      match next with
      | none => (.broken, false)
      | some n => if isNewline n then (.broken, false) else (.continue { s with ident := s.ident ++ [lower n] }, true)
    else if b == 40 then
      if s.ident == urlIdent then
        (.continue { s with mode := .url, stack := 41 :: s.stack, ident := [], cur := [] }, false)
      else if s.ident.isEmpty then (.continue { s with stack := 41 :: s.stack, ident := [] }, false)
      else (.broken, false)                                   -- a function other than url()
    else if b == 91 then (.continue { s with stack := 93 :: s.stack, ident := [] }, false)
    else if b == 123 then (.continue { s with stack := 125 :: s.stack, ident := [] }, false)
    else if b == 41 || b == 93 || b == 125 then
      match s.stack with
      | c :: rest => if c == b then (.continue { s with stack := rest, ident := [] }, false) else (.broken, false)
      | [] => (.broken, false)
    else if isIdentByte b then (.continue { s with ident := s.ident ++ [lower b] }, false)
    else (.continue { s with ident := [] }, false)

/-- After `url(`: leading whitespace is skipped and a quote switches to the quoted form. This is folded into
    `.url` mode by `scan` below: whitespace at the start of an empty url body is skipped, a quote there opens
    a string whose value is the url. -/
def scanAux : Nat → St → Nat → Bytes → Option (Nat × List Bytes)
  | 0, _, _, _ => none
  | _, _, _, [] => none                                  -- input ended before the declaration did
  | fuel + 1, s, i, b :: rest =>
    -- special handling at the start of a url( token
    if s.mode == .url && s.cur.isEmpty && isWs b then scanAux fuel s (i + 1) rest
    else if s.mode == .url && s.cur.isEmpty && (b == 34 || b == 39) then
      scanAux fuel { s with mode := .str b, inUrlFn := true, cur := [] } (i + 1) rest
    else
      match step s b rest.head? with
      | (.done, _) => some (i, s.urls)
      | (.broken, _) => none
      | (.continue s', false) => scanAux fuel s' (i + 1) rest
      | (.continue s', true) => scanAux fuel s' (i + 2) (rest.drop 1)

/-- Index of the `;` that ends the declaration starting at the beginning of `input`, with the url() bodies
    seen on the way; `none` if the text is not safely one declaration. -/
def scanDecl (input : Bytes) : Option (Nat × List Bytes) := scanAux (input.length + 1) {} 0 input

/-- http, https, mailto — from the property statement. -/
def cssAllowedSchemes : List Bytes := [[104, 116, 116, 112], [104, 116, 116, 112, 115], [109, 97, 105, 108, 116, 111]]

def urlAllowed (u : Bytes) : Bool :=
  match Whatwg.scheme u with
  | none => true
  | some sc => cssAllowedSchemes.contains sc

/-- Executable form of "the pair affects exactly its own declaration" for one continuation `post`. -/
def declSafeWith (p v post : Bytes) : Bool :=
  match scanDecl (p ++ [58] ++ v ++ [59] ++ post) with
  | some (i, urls) => i == p.length + 1 + v.length && urls.all urlAllowed
  | none => false

/-- The property, for every continuation. -/
def DeclSafe (p v : Bytes) : Prop :=
  (∀ post, declSafeWith p v post = true) ∧ (60 : UInt8) ∉ v ∧ (60 : UInt8) ∉ p

end TemplVerif.Css
