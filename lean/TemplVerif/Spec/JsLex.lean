import TemplVerif.Base.Utf8
/-
Specification: ECMAScript lexing of string literals and no-substitution templates (ECMA-262 §12.9.4,
§12.9.6), as far as needed to say "the emitted text is one string literal whose value is …".
Input is the byte stream after the opening quote; runes are decoded as Go does (one U+FFFD per invalid
byte — a browser's decoder may merge some adjacent invalid bytes into one U+FFFD; see trusted base).
-/
namespace TemplVerif.JsLex
open TemplVerif

inductive Quote
  | single | double | backtick
deriving DecidableEq, Repr

def Quote.byte : Quote → UInt8
  | .single => 39
  | .double => 34
  | .backtick => 96

inductive Result
  | ok (value : List Nat) (rest : Bytes)
  | interpolation            -- `${` inside a template literal
  | lineTerminator           -- raw LF / CR inside '…' or "…"
  | badEscape
  | unterminated
deriving DecidableEq, Repr

def hexVal (b : UInt8) : Option Nat :=
  if 48 ≤ b && b ≤ 57 then some (b.toNat - 48)
  else if 97 ≤ b && b ≤ 102 then some (b.toNat - 87)
  else if 65 ≤ b && b ≤ 70 then some (b.toNat - 55)
  else none

def hex2 : Bytes → Option (Nat × Bytes)
  | a :: b :: rest => do let x ← hexVal a; let y ← hexVal b; pure (x * 16 + y, rest)
  | _ => none

def hex4 : Bytes → Option (Nat × Bytes)
  | a :: b :: c :: d :: rest => do
    let w ← hexVal a; let x ← hexVal b; let y ← hexVal c; let z ← hexVal d
    pure (((w * 16 + x) * 16 + y) * 16 + z, rest)
  | _ => none

/-- `\u{H…}`: hex digits up to `}`. -/
def hexBraced : Nat → Nat → Bytes → Option (Nat × Bytes)
  | 0, _, _ => none
  | _, _, [] => none
  | fuel + 1, acc, b :: rest =>
    if b == 125 then some (acc, rest)
    else match hexVal b with
      | some v => hexBraced fuel (acc * 16 + v) rest
      | none => none

/-- After a backslash: the escape's value (`none` = line continuation, contributes nothing) and the rest. -/
def escape (s : Bytes) : Option (Option Nat × Bytes) :=
  let (r, w) := Utf8.decodeRune s
  let rest := s.drop (max w 1)
  match s with
  | [] => none
  | _ =>
    if r == 110 then some (some 10, rest) else if r == 114 then some (some 13, rest)
    else if r == 116 then some (some 9, rest) else if r == 98 then some (some 8, rest)
    else if r == 102 then some (some 12, rest) else if r == 118 then some (some 11, rest)
    else if r == 48 then
      (match rest with
       | d :: _ => if 48 ≤ d && d ≤ 57 then none else some (some 0, rest)
       | [] => some (some 0, rest))
    else if r == 120 then (hex2 rest).map fun (v, r') => (some v, r')
    else if r == 117 then
      (match rest with
       | 123 :: more => (hexBraced (more.length + 1) 0 more).map fun (v, r') => (some v, r')
       | _ => (hex4 rest).map fun (v, r') => (some v, r'))
    else if r == 10 || r == 0x2028 || r == 0x2029 then some (none, rest)
    else if r == 13 then (match rest with | 10 :: more => some (none, more) | _ => some (none, rest))
    else if 49 ≤ r && r ≤ 57 then none
    else some (some r, rest)

/-- Lex the body of a string literal / template after its opening quote. -/
def lexAux (q : Quote) : Nat → List Nat → Bytes → Result
  | 0, _, _ => .unterminated
  | _, _, [] => .unterminated
  | fuel + 1, acc, s@(_ :: _) =>
    let (r, w) := Utf8.decodeRune s
    let rest := s.drop (max w 1)
    if r == q.byte.toNat then .ok acc rest
    else if r == 92 then
      match escape rest with
      | none => .badEscape
      | some (v, rest') => if rest'.length < s.length then lexAux q fuel (match v with | some c => acc ++ [c] | none => acc) rest' else .badEscape
    else if q != .backtick && (r == 10 || r == 13) then .lineTerminator
    else if q == .backtick && r == 36 && rest.head? == some 123 then .interpolation
    else lexAux q fuel (acc ++ [r]) rest

def lexString (q : Quote) (s : Bytes) : Result := lexAux q (s.length + 1) [] s

/-- Lexical state of JavaScript source text as far as string literals are concerned: code, inside a
    literal of one of the three kinds, or inside a comment. No regular-expression literals and no `${…}`
    substitutions (scripts containing them are outside what is claimed about the parser's tracker). -/
inductive SrcState
  | code | str (q : Quote) | lineComment | blockComment
deriving DecidableEq, Repr

/-- One step over source text; returns the new state and how many bytes were consumed (1 or 2; 3 for `\` CR LF). -/
def srcStep (st : SrcState) (s : Bytes) : SrcState × Nat :=
  match st, s with
  | _, [] => (st, 1)
  | .code, 39 :: _ => (.str .single, 1)
  | .code, 34 :: _ => (.str .double, 1)
  | .code, 96 :: _ => (.str .backtick, 1)
  | .code, 47 :: 47 :: _ => (.lineComment, 2)
  | .code, 47 :: 42 :: _ => (.blockComment, 2)
  | .code, _ => (.code, 1)
  | .lineComment, b :: _ => if b == 10 || b == 13 then (.code, 1) else (.lineComment, 1)
  | .blockComment, 42 :: 47 :: _ => (.code, 2)
  | .blockComment, _ => (.blockComment, 1)
  | .str _, 92 :: 13 :: 10 :: _ => (st, 3)          -- line continuation: backslash CR LF is ONE escape
  | .str _, 92 :: _ :: _ => (st, 2)
  | .str q, b :: _ =>
    if b == q.byte then (.code, 1)
    else if q != .backtick && (b == 10 || b == 13) then (.code, 1)   -- unterminated literal ends at the line end
    else (st, 1)

/-! ### The full source lexer: regular-expression literals, `${…}` substitutions, HTML-like comments

`srcStep` above is what templ's script parser implements (quotes, `//` and `/* */` comments, escapes). JavaScript source
has three more constructs that change where a string literal begins or ends; the specification tracks them so that
a `{{ v }}` the parser misplaces because of them is REPORTED (they are recorded as known findings) instead of being
silently outside the claim. -/

inductive Mode
  | code | str (q : Quote) | lineComment | blockComment
  | regex (inClass : Bool)
deriving DecidableEq, Repr

structure Src where
  mode : Mode := .code
  /-- brace depth inside each enclosing `${ … }` substitution, innermost first -/
  interp : List Nat := []
  /-- last significant byte seen in code (none at the start): decides whether `/` starts a regular expression -/
  prev : Option UInt8 := none
  sawRegex : Bool := false
  sawInterp : Bool := false
  sawHtmlComment : Bool := false
  /-- a backslash outside every literal and comment: the text is not JavaScript (apart from `\uXXXX` in identifiers) -/
  sawStrayBackslash : Bool := false
  /-- a line break inside a '…' or "…" literal: an unterminated string literal, not JavaScript either -/
  sawBrokenString : Bool := false
deriving Repr

/-- `/` starts a regular-expression literal where an expression cannot have just ended (the usual lexer rule, by the
    previous significant byte; keywords such as `return` are not recognised — there `/` is read as division). -/
def regexAllowed (prev : Option UInt8) : Bool :=
  match prev with
  | none => true
  | some b => [40, 44, 61, 58, 91, 33, 38, 124, 63, 123, 125, 59, 43, 45, 42, 37, 60, 62, 126, 94].contains b

def isSpaceByte (b : UInt8) : Bool := b == 32 || b == 9 || b == 10 || b == 13

def step2 (st : Src) (s : Bytes) : Src × Nat :=
  match st.mode, s with
  | _, [] => (st, 1)
  | .code, 39 :: _ => ({ st with mode := .str .single }, 1)
  | .code, 34 :: _ => ({ st with mode := .str .double }, 1)
  | .code, 96 :: _ => ({ st with mode := .str .backtick }, 1)
  | .code, 47 :: 47 :: _ => ({ st with mode := .lineComment }, 2)
  | .code, 47 :: 42 :: _ => ({ st with mode := .blockComment }, 2)
  | .code, 60 :: 33 :: 45 :: 45 :: _ => ({ st with mode := .lineComment, sawHtmlComment := true }, 4)   -- `<!--` (Annex B)
  | .code, 47 :: _ =>
    if regexAllowed st.prev then ({ st with mode := .regex false, sawRegex := true }, 1)
    else ({ st with prev := some 47 }, 1)
  | .code, 123 :: _ =>
    (match st.interp with
     | d :: rest => { st with interp := (d + 1) :: rest, prev := some 123 }
     | [] => { st with prev := some 123 }, 1)
  | .code, 125 :: _ =>
    (match st.interp with
     | 0 :: rest => { st with interp := rest, mode := .str .backtick }      -- end of the substitution: back in the template
     | (d + 1) :: rest => { st with interp := d :: rest, prev := some 125 }
     | [] => { st with prev := some 125 }, 1)
  | .code, 92 :: _ => ({ st with prev := some 92, sawStrayBackslash := true }, 1)
  | .code, b :: _ => (if isSpaceByte b then st else { st with prev := some b }, 1)
  | .lineComment, b :: _ => if b == 10 || b == 13 then ({ st with mode := .code }, 1) else (st, 1)
  | .blockComment, 42 :: 47 :: _ => ({ st with mode := .code }, 2)
  | .blockComment, _ => (st, 1)
  | .regex _, 92 :: _ :: _ => (st, 2)
  | .regex false, 91 :: _ => ({ st with mode := .regex true }, 1)
  | .regex true, 93 :: _ => ({ st with mode := .regex false }, 1)
  | .regex false, 47 :: _ => ({ st with mode := .code, prev := some 41 }, 1)       -- a finished literal ends an expression
  | .regex _, b :: _ => if b == 10 || b == 13 then ({ st with mode := .code }, 1) else (st, 1)
  | .str _, 92 :: 13 :: 10 :: _ => (st, 3)
  | .str _, 92 :: _ :: _ => (st, 2)
  | .str .backtick, 36 :: 123 :: _ => ({ st with mode := .code, interp := 0 :: st.interp, prev := none, sawInterp := true }, 2)
  | .str q, b :: _ =>
    if b == q.byte then ({ st with mode := .code, prev := some 41 }, 1)
    else if q != .backtick && (b == 10 || b == 13) then ({ st with mode := .code, sawBrokenString := true }, 1)
    else (st, 1)

/-- Walk a script in which the bytes `{{ v }}` mark Go expressions (zero-width for JavaScript); returns, for
    each marker in order, whether it is inside a string literal, and the final state (which constructs were met). -/
def markerFlagsAux (marker : Bytes) : Nat → Src → Bytes → List Bool × Src
  | 0, st, _ => ([], st)
  | _, st, [] => ([], st)
  | fuel + 1, st, s@(_ :: _) =>
    -- inside a comment `{{ v }}` is comment text, not a Go expression (templ's script parser passes comments through)
    let inComment := match st.mode with | .lineComment => true | .blockComment => true | _ => false
    if List.isPrefixOf marker s && !inComment then
      -- a value stands where the marker is: afterwards an expression has just ended
      let st' := match st.mode with | .code => { st with prev := some 41 } | _ => st
      let (fs, fin) := markerFlagsAux marker fuel st' (s.drop marker.length)
      ((match st.mode with | .str _ => true | _ => false) :: fs, fin)
    else
      let (st', n) := step2 st s
      markerFlagsAux marker fuel st' (s.drop (max n 1))

def markerFlags (marker script : Bytes) : List Bool := (markerFlagsAux marker (script.length + 1) {} script).1

/-- Which of the constructs templ's parser does not track occur in the script. -/
def scriptFeatures (marker script : Bytes) : List String :=
  let fin := (markerFlagsAux marker (script.length + 1) {} script).2
  (if fin.sawRegex then ["regex"] else []) ++ (if fin.sawInterp then ["interpolation"] else []) ++
    (if fin.sawHtmlComment then ["html-comment"] else []) ++ (if fin.sawStrayBackslash then ["stray-backslash"] else []) ++
    (if fin.sawBrokenString then ["broken-string"] else [])

/-- HTML side of a script element's text: it must not contain `</script` (any case) followed by a tag-name
    delimiter, nor `<!--`. A sufficient check used by the theorems: no `<` at all. -/
def scriptDataSafe (s : Bytes) : Bool := !s.contains 60

end TemplVerif.JsLex
