// Command harness is the implementation side of the correspondence checks: for each property
// it generates cases, runs the REAL a-h/templ code from /repo in-process on them, and prints one
// line per case (inputs and the implementation's output, hex encoded) for the Lean driver.
package main

import (
	"bufio"
	"flag"
	"fmt"
	"os"
	"sort"
)

type engine struct {
	name string
	run  func(e *emitter, tier string, seed uint64)
}

var workDir, repoDir string

var engines = map[string]func(e *emitter, tier string, seed uint64){}

func register(name string, f func(e *emitter, tier string, seed uint64)) { engines[name] = f }

func main() {
	if len(os.Args) < 2 {
		fmt.Fprintln(os.Stderr, "usage: harness <engine> [-tier quick|thorough] [-seed n] [-corpus file]")
		os.Exit(2)
	}
	name := os.Args[1]
	fs := flag.NewFlagSet(name, flag.ExitOnError)
	tier := fs.String("tier", "quick", "quick or thorough")
	seed := fs.Uint64("seed", 1, "PRNG seed")
	corpus := fs.String("corpus", "", "corpus file of request lines to run first (implementation output is recomputed)")
	statsFile := fs.String("stats", "", "write generator statistics (JSON) here")
	onlyCorpus := fs.Bool("only-corpus", false, "run the corpus lines and stop (replay)")
	fs.StringVar(&workDir, "work", "", "scratch directory for this run")
	shard := fs.String("shard", "0/1", "i/n: emit only the cases whose key hashes to shard i of n")
	fs.StringVar(&repoDir, "repo", "/repo", "a-h/templ checkout")
	_ = fs.Parse(os.Args[2:])
	f, ok := engines[name]
	if !ok {
		names := []string{}
		for k := range engines {
			names = append(names, k)
		}
		sort.Strings(names)
		fmt.Fprintf(os.Stderr, "unknown engine %q; have %v\n", name, names)
		os.Exit(2)
	}
	w := bufio.NewWriterSize(os.Stdout, 1<<20)
	e := newEmitter(w, name)
	e.corpusFile = *corpus
	e.onlyCorpus = *onlyCorpus
	fmt.Sscanf(*shard, "%d/%d", &e.shard, &e.nshards)
	if e.nshards < 1 {
		e.nshards = 1
	}
	f(e, *tier, *seed)
	w.Flush()
	if *statsFile != "" {
		e.writeStats(*statsFile)
	}
}
