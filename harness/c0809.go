package main

import (
	"bytes"
	"fmt"
	"go/ast"
	"go/format"
	goparser "go/parser"
	"go/token"
	"os"
	"path/filepath"
	"regexp"
	"sort"
	"strconv"
	"strings"

	"github.com/a-h/templ/cmd/templ/fmtcmd"
	"github.com/a-h/templ/generator"
	parser "github.com/a-h/templ/parser/v2"
)

func init() {
	register("C08", func(e *emitter, tier string, seed uint64) { runFmt(e, tier, seed, "C08") })
	register("C09", func(e *emitter, tier string, seed uint64) { runFmt(e, tier, seed, "C09") })
}

// fmtViaCommand formats through the real `templ fmt` command path (stdin to stdout), which is what format-on-save
// and CI run; it must agree with Write(ParseString(src)).
func fmtViaCommand(src string) (string, error) {
	var out bytes.Buffer
	err := fmtcmd.Run(quietLog, strings.NewReader(src), &out, fmtcmd.Arguments{})
	return out.String(), err
}

// fmtTempl is what `templ fmt` does with stdin: Write(ParseString(src)).
func fmtTempl(src string) (string, error) {
	tf, err := parser.ParseString(src)
	if err != nil {
		return "", err
	}
	var b bytes.Buffer
	if err := tf.Write(&b); err != nil {
		return "", err
	}
	return b.String(), nil
}

var lineColRe = regexp.MustCompile(`Line: \d+, Col: \d+`)

// genNormalised: generate, mask the source positions embedded in error values, gofmt.
func genNormalised(src string) (string, error) {
	tf, err := parser.ParseString(src)
	if err != nil {
		return "", err
	}
	var b bytes.Buffer
	if _, err = generator.Generate(tf, &b, generator.WithFileName("x.templ")); err != nil {
		return "", err
	}
	out, err := format.Source(b.Bytes())
	if err != nil {
		return "", err
	}
	out, err = dropPlainComments(out)
	if err != nil {
		return "", err
	}
	// blank lines are layout of the embedded Go code (the formatter may attach a comment to the template that follows it)
	return blankLinesRe.ReplaceAllString(lineColRe.ReplaceAllString(string(out), "Line: 0, Col: 0"), "\n"), nil
}

// dropPlainComments removes the comments of a Go file that are not compiler directives and prints it again: comments
// are not part of the program ("the same program"), and gofmt rewrites the white space inside doc comments depending on
// what they are attached to. Directives (//go:…, //line, // +build, //export) stay, in place.
func dropPlainComments(src []byte) ([]byte, error) {
	fset := token.NewFileSet()
	f, err := goparser.ParseFile(fset, "", src, goparser.ParseComments)
	if err != nil {
		return nil, err
	}
	keep := []*ast.CommentGroup{} // non-nil: with a nil list the printer falls back to the comments attached to the nodes
	for _, cg := range f.Comments {
		var list []*ast.Comment
		for _, c := range cg.List {
			t := c.Text
			if strings.HasPrefix(t, "//go:") || strings.HasPrefix(t, "//line ") || strings.HasPrefix(t, "// +build") || strings.HasPrefix(t, "//export ") {
				list = append(list, c)
			}
		}
		if len(list) > 0 {
			keep = append(keep, &ast.CommentGroup{List: list})
		}
	}
	f.Comments = keep
	var b bytes.Buffer
	if err := format.Node(&b, fset, f); err != nil {
		return nil, err
	}
	return b.Bytes(), nil
}

var blankLinesRe = regexp.MustCompile(`\n(?:[ \t]*\n)+`)

// templateBodies serialises the body of every HTML template of a file, in order.
func templateBodies(src string) ([]string, bool) {
	tf, err := parser.ParseString(src)
	if err != nil {
		return nil, false
	}
	var out []string
	for _, n := range tf.Nodes {
		if ht, ok := n.(parser.HTMLTemplate); ok {
			a, err := astBody(ht.Children)
			if err != nil {
				return nil, false
			}
			out = append(out, a)
		}
	}
	return out, true
}

var litIndexRe = regexp.MustCompile(`WriteString\(templ_7745c5c3_Buffer, \d+, "`)
var varNumRe = regexp.MustCompile(`templ_7745c5c3_Var\d+`)

// maskNumbering hides the file-wide running numbers (literal index, variable names) in one function's code: they
// shift when an EARLIER template of the file changes.
func maskNumbering(f string) string {
	f = litIndexRe.ReplaceAllString(f, `WriteString(templ_7745c5c3_Buffer, #, "`)
	seen := map[string]string{}
	return varNumRe.ReplaceAllStringFunc(f, func(v string) string {
		if _, ok := seen[v]; !ok {
			seen[v] = fmt.Sprintf("templ_7745c5c3_Var#%d", len(seen)+1)
		}
		return seen[v]
	})
}

// templateBodyTexts returns, for every HTML template of a formatted file, the text between `templ …(…) {` + newline and
// the closing brace.
func templateBodyTexts(src string) ([]string, bool) {
	tf, err := parser.ParseString(src)
	if err != nil {
		return nil, false
	}
	var out []string
	for _, n := range tf.Nodes {
		ht, ok := n.(parser.HTMLTemplate)
		if !ok {
			continue
		}
		from, to := int(ht.Range.From.Index), int(ht.Range.To.Index)
		if from < 0 || to > len(src) || from >= to {
			return nil, false
		}
		full := src[from:to]
		hdr := "templ " + ht.Expression.Value + " {\n"
		if !strings.HasPrefix(full, hdr) || !strings.HasSuffix(full, "}") {
			return nil, false
		}
		out = append(out, full[len(hdr):len(full)-1])
	}
	return out, true
}

// templateFuncs cuts gofmt-ed generated code into its top-level functions and keeps those of HTML templates.
func templateFuncs(code string) []string {
	var out []string
	var cur []string
	flush := func() {
		if len(cur) > 0 {
			f := strings.Join(cur, "\n")
			if strings.Contains(f, "templruntime.GeneratedTemplate(func(templ_7745c5c3_Input") && strings.Contains(f, "templ.GetChildren(ctx)") {
				out = append(out, f)
			}
		}
		cur = nil
	}
	for _, l := range strings.Split(code, "\n") {
		if strings.HasPrefix(l, "func ") {
			flush()
			cur = []string{l}
		} else if cur != nil {
			cur = append(cur, l)
			if l == "}" {
				flush()
			}
		}
	}
	flush()
	return out
}

// repoTemplates returns the .templ sources in the repository (corpus that the suite's golden files come from).
func repoTemplates() []string {
	var out []string
	filepath.Walk(repoDir, func(p string, info os.FileInfo, err error) error {
		if err != nil {
			return nil
		}
		if info.IsDir() && (info.Name() == ".git" || info.Name() == "node_modules") {
			return filepath.SkipDir
		}
		if strings.HasSuffix(p, ".templ") {
			if b, err := os.ReadFile(p); err == nil {
				out = append(out, string(b))
			}
		}
		return nil
	})
	return out
}

// fmtSeeds: template bodies that witnessed formatter defects (repaired or recorded) or that seeded changes needed
// in order to manifest; they run first on every check.
// fmtFileSeeds: whole files (file-level layout) that witnessed formatter defects.
var fmtFileSeeds = []string{
	"package x\n\nvar a = 1\n\t// c\n\ntempl T() {\n\t<p>x</p>\n}\n",
	"package x\n\n// doc\ntempl A() {\n\t<p>x</p>\n}\n\nfunc f() int {\n\treturn 1 // t\n}\n   // c2\ntempl B() {\n\t<i>y</i>\n}\n",
}

// fmtImportSeeds: whole files whose import section the command has to tidy (unused, missing, named, grouped imports).
var fmtImportSeeds = []string{
	"package main\n\nimport (\n\t\"os\"\n\t\"strings\"\n\t\"time\"\n)\n\ntempl x() {\n\t<p>a</p>\n}\n",
	"package main\n\nimport (\n\t\"fmt\"\n\t\"os\"\n\t\"strings\"\n\t\"time\"\n)\n\ntempl x(n int) {\n\t<p>{ fmt.Sprint(n) }</p>\n}\n",
	"package main\n\nimport \"os\"\nimport \"strings\"\nimport \"time\"\nimport \"sort\"\n\ntempl x() {\n\t<p>a</p>\n}\n",
	"package main\n\nimport (\n\t\"os\"\n\n\t\"strings\"\n\t\"time\"\n\n\t\"sort\"\n\t\"bytes\"\n)\n\ntempl x(s string) {\n\t<p>{ strings.ToUpper(s) }</p>\n}\n",
	"package main\n\ntempl x(n int) {\n\t<p>{ fmt.Sprint(n) }{ strings.Repeat(\"a\", n) }</p>\n}\n",
	"package main\n\nimport t \"github.com/a-h/templ\"\n\ntempl x(s string) {\n\t<a href={ t.URL(s) }>l</a>\n}\n",
	"package main\n\nimport (\n\tt \"github.com/a-h/templ\"\n\trt \"github.com/a-h/templ/runtime\"\n\t\"os\"\n)\n\ntempl x(s string) {\n\t<a href={ t.URL(s) }>{ rt.GetDevModeTextFileName(s) }</a>\n}\n",
	"package main\n\nimport \"github.com/a-h/templ\"\n\ntempl x(s string) {\n\t<a href={ templ.URL(s) }>l</a>\n}\n",
	"package main\n\nimport (\n\tstr \"strings\"\n\t\"os\"\n\t\"io\"\n)\n\ntempl x(s string) {\n\t<p>{ str.ToUpper(s) }</p>\n}\n",
}

var fmtSeeds = []string{
	// white space that is not a line feed (form feed, vertical tab, a lone carriage return) after an inline node of a one-line element
	"<p><b>Name:</b>\f<i>{ s }</i></p>",
	"<li>{ s }\r{ t }</li>",
	"<td><a href=\"/\">home</a>\v/ docs</td>",
	"<p>{ s }\f{ t }\v<b>x</b>\r<i>y</i></p>",
	// element names with capitals (SVG, MathML, XML)
	"<svg viewBox=\"0 0 1 1\"><defs><linearGradient id=\"g\"><stop offset=\"0\"></stop></linearGradient><clipPath id=\"c\"><rect></rect></clipPath></defs><foreignObject><p>x</p></foreignObject></svg>",
	"<feGaussianBlur stdDeviation=\"2\"></feGaussianBlur><myTag>{ s }</myTag>",
	// a script element whose {{ }} expressions are followed by white space
	"<script>\n\t\tconst a = {{ n }} + 1;\n\t\tconst b = \"{{ s }} {{ t }}\";\n\t\tconst half = {{ n / 2 }}\n\t\tconsole.log(a, b, half)\n\t</script>",
	"{! leaf( s ) }",
	// the same statement in a one-line and in a multi-line {{ }} block of one file (and of the next file of the run)
	"{{ _ = n }}\n\t<p>a</p>\n\t{{\n\t\t_ = n\n\t}}\n\t<p>b</p>",
	"{{\n\t\t_ = n\n\t}}\n\t<p>c</p>",
	"<small\n\t\tdata-m={\n\t\t\ts,/*\tc1\n c2  */\n\t\t}\n\t>x</small>",
	"@leaf(s +\n\n\n\t\t`r1\nr2\n\tr3`)",
	"{! leaf(s +\n\n\n\t\t`r1\nr2`) }",
	"<p class={ \"btn\", s,\t// note\n\t}>x</p>",
	"<p class={ \"link\", t,// note\n\t}>x</p>",
	"<p\n\t\tdata-x={\n\t\t\t`a\nb`,\n\t\t}\n\t>x</p>",
	"<p\n\t\ttitle={\n\t\t\ts, /* c1\n c2 */\n\t\t}\n\t>x</p>",
	"<h2>{ // only\n\t}</h2>",
	"<h1>a{\n\t\t// go comment\n\t}<!--c--></h1>",
	`<section title={ s }>{ children... }</section>`,
	`<p>{ s /* c */ }</p>`,
	`<a title="1&quot;2" data-k='a&#39;b' href="/s?q=1&amp;copy=2&amp;lt=5">x</a>`,
	`<label onmouseover={ hello(t) } title="it's" if false { onclick={ hello(s) } }>{ items[0] }</label>`,
	`<em><ul if p.On { { attrs... } }  { attrs... }>x</ul></em>`,
	`<p><span>a</span> <a href="x" if c { class="y" }>t</a></p>`,
	`<p><span>a</span> <em>@leaf(s)</em> <b>c</b></p>`,
	"<section>\n\t\tHello <div>x</div>\n\t</section>",
	"<section>\n\t\t<b>x</b> tail </section>",
	"{{ if b { _ = n } }}",
	"<button>{{ for i := 0; i < n; i++ { _ = i } }}</button>",
	"{{ x := 1 // c\n\t}}\n\t<i class={ s // c\n\t}>{ t // c\n\t}</i>",
	"<article>text {! leaf(s) }</article>",
	"<div><span>a</span>if b {\n\t\t<b>b</b>\n\t}</div>",
	"<div><span>a</span><em>\n\t\tb\n\t</em></div>",
	"<div>\n\t\tif b {\n\t\t\t<span>a</span>}\n\t\t<b>c</b>\n\t</div>",
	"<!-- begin\n\tend -->\n\t<script>\n\t\tvar a = 1;\n\t</script>\n\t<style>\n\t\tp { color: red; }\n\t</style>",
}

func runFmt(e *emitter, tier string, seed uint64, prop string) {
	do := func(src string, origin string) {
		if !e.mine(src) {
			return
		}
		g0, err := genNormalised(src)
		if err != nil {
			e.count("rejected:" + origin)
			return // not accepted by parse + generate + gofmt: outside the quantifier
		}
		f1, err1 := fmtTempl(src)
		// the command path must produce the same text (it is the one users run)
		if fc, errc := fmtViaCommand(src); (errc == nil) != (err1 == nil) || (errc == nil && fc != f1) {
			e.count("command-path-differs")
			if errc == nil {
				f1, err1 = fc, nil // judge the property on what the command really writes
			}
		}
		if prop == "C09" {
			f2, err2 := "", err1
			if err1 == nil {
				f2, err2 = fmtTempl(f1)
			}
			a, b := hx(f1), hx(f2)
			if err1 != nil {
				a = "ERR"
			}
			if err2 != nil {
				b = "ERR"
			}
			e.emit(src, "fmt", origin, hx(src), a, b)
			// the command in its usual mode rewrites the file in place: afterwards the file holds the formatted text, no
			// more and no less (a file is first given a longer text, as when lines were removed by formatting)
			if err1 == nil && len(src)%7 == 0 {
				if got, ok := fmtInPlace(src); ok {
					e.emit("inplace "+src, "inplace", hx(f1), hx(got))
				} else {
					e.count("inplace-command-error")
					e.emit("inplace "+src, "inplace", hx(f1), hx("COMMAND-ERROR: templ fmt <file> failed on a template that formats from stdin"))
				}
			}
			// printer model: the real parser's tree of every template of x, and the text the real formatter wrote for its body
			if err1 == nil && err2 == nil {
				a0, ok0 := templateBodies(src)
				a1, ok1 := templateBodies(f1)
				t1, okt := templateBodyTexts(f1)
				if ok0 && ok1 && okt && len(a0) == len(a1) && len(a0) == len(t1) && len(a0) > 0 {
					texts := make([]string, len(t1))
					for i := range t1 {
						texts[i] = hx(t1[i])
					}
					e.emit(src+"#prt", "prt", origin, hx(src), strings.Join(a0, "|"), strings.Join(a1, "|"), strings.Join(texts, "|"))
				} else {
					e.count("prt-not-comparable")
				}
			}
			return
		}
		g1S := "ERR"
		f1S := "ERR"
		if err1 == nil {
			f1S = hx(f1)
			if g1, err := genNormalised(f1); err == nil {
				g1S = hx(g1)
			} else {
				g1S = "ERR:" + hx(err.Error())
			}
		}
		e.emit(src, "gen", origin, hx(src), f1S, hx(g0), g1S)
		// layout classes: the REAL parser's trees of the original and of the formatted file, template by template, and
		// whether the real generated code of each template is the same program
		if err1 == nil && !strings.HasPrefix(g1S, "ERR") {
			a0, ok0 := templateBodies(src)
			a1, ok1 := templateBodies(f1)
			c0, c1 := templateFuncs(g0), templateFuncs(unhx(g1S))
			if ok0 && ok1 && len(a0) == len(a1) && len(a0) > 0 && len(c0) == len(a0) && len(c1) == len(a0) {
				bits := make([]string, len(a0))
				for i := range a0 {
					bits[i] = b01(maskNumbering(c0[i]) == maskNumbering(c1[i]))
				}
				e.emit(src+"#cls", "cls", origin, hx(src), strings.Join(a0, "|"), strings.Join(a1, "|"), strings.Join(bits, ""))
			} else {
				e.count("cls-not-comparable")
			}
		}
	}
	for _, f := range e.corpusLines() {
		if len(f) >= 4 && (f[1] == "fmt" || f[1] == "gen") {
			do(unhx(f[3]), "corpus")
		}
	}
	if e.onlyCorpus {
		return
	}
	for _, s := range repoTemplates() {
		do(s, "repo")
	}
	for _, b := range fmtSeeds {
		src := tgenPrelude + "templ T0(" + tgenSig + ") {\n\t" + b + "\n}\n"
		do(src, "seed")
		do(strings.ReplaceAll(src, "\n", "\r\n"), "seed")
	}
	for _, f := range fmtFileSeeds {
		do(f, "seed")
		do(strings.ReplaceAll(f, "\n", "\r\n"), "seed")
	}
	// `templ fmt <file>` tidies the imports: every import the template's code USES is still there afterwards, under
	// the same name (the formatted file denotes the same program)
	if prop == "C08" {
		for i, f := range fmtImportSeeds {
			key := fmt.Sprintf("fmtimports %d", i)
			if !e.mine(key) {
				continue
			}
			g0, err := genNormalised(f)
			if err != nil {
				e.count("rejected:import-seed")
				continue
			}
			first, ok1 := fmtInPlace(f)
			if !ok1 {
				e.count("inplace-command-error")
				continue
			}
			g1, err := genNormalised(first)
			if err != nil {
				e.emit(key, "fmtimports", hx(f), hx(first), hx("formatted file is no longer accepted: "+err.Error()))
				continue
			}
			missing := []string{}
			have := declaredImports(g1)
			for name, path := range usedImports(g0) {
				if have[name] != path {
					missing = append(missing, name+"="+path)
				}
			}
			sort.Strings(missing)
			e.emit(key, "fmtimports", hx(f), hx(first), hx(strings.Join(missing, ",")))
		}
	}
	// `templ fmt <file>` (which also tidies the imports) run twice on the same file: the second run changes nothing
	if prop == "C09" {
		for i, f := range append(append([]string{}, fmtImportSeeds...), fmtFileSeeds...) {
			key := fmt.Sprintf("inplace2 %d", i)
			if !e.mine(key) {
				continue
			}
			if _, err := genNormalised(f); err != nil {
				e.count("rejected:import-seed")
				continue
			}
			first, ok1 := fmtInPlace(f)
			if !ok1 {
				e.count("inplace-command-error")
				continue
			}
			second, ok2 := fmtInPlace(first)
			if !ok2 {
				second = "COMMAND-ERROR: templ fmt <file> failed on its own output"
			}
			e.emit(key, "inplace2", hx(f), hx(first), hx(second))
		}
	}
	r := &rng{s: seed}
	n := 2500
	if tier == "thorough" {
		n = 40000
	}
	agg := map[string]int{}
	for i := 0; i < n; i++ {
		g := newTgen(r, 2+r.intn(3))
		g.plain = prop == "C09" && i%2 == 0 // half of the C09 inputs stay inside the printer model's fragment
		src := g.file()
		if r.chance(1, 10) {
			src = strings.ReplaceAll(src, "\n", "\r\n")
		}
		do(src, "generated")
		// the same file with its white space disturbed (the formatter normalises white space in many places, each with
		// its own code): whatever `templ generate` still accepts is one more input
		if !g.plain && i%3 == 0 {
			do(wsPerturb(r, src), "perturbed")
		}
		for k, v := range g.counts {
			agg[k] += v
		}
	}
	for k, v := range agg {
		e.counters["node:"+k] += v
	}
}

// wsPerturb disturbs the white space of a template file below the prelude: runs of blanks and tabs for single spaces,
// runs of empty lines, line comments that no space precedes, missing space after a comma.
func wsPerturb(r *rng, src string) string {
	start := 0
	if i := strings.Index(src, "\ntempl "); i >= 0 && r.chance(3, 4) {
		start = i // mostly leave the shared prelude alone (it is also exercised, less often)
	}
	var b strings.Builder
	b.WriteString(src[:start])
	rest := src[start:]
	rate := 8 + r.intn(20)
	for i := 0; i < len(rest); i++ {
		c := rest[i]
		switch {
		case c == ' ' && strings.HasPrefix(rest[i:], " //") && r.chance(1, 3):
			b.WriteString(r.pick([]string{"\t", ""}))
		case c == ' ' && i > 0 && rest[i-1] == ',' && r.chance(1, rate):
			// drop the space after a comma
		case c == ' ' && r.chance(1, rate):
			b.WriteString(r.pick([]string{"  ", "   ", "\t", " \t", "    ", "\t\t"}))
		case c == '\n' && r.chance(1, rate+4):
			b.WriteString(r.pick([]string{"\n\n", "\n\n\n", "\n \n", "\n\n\n\n"}))
		default:
			b.WriteByte(c)
		}
	}
	return b.String()
}

// fmtInPlace runs `templ fmt <file>` (the real command path, in-place mode) on a file that holds src followed - before
// the run - by nothing else, and returns what the file holds afterwards.
func fmtInPlace(src string) (string, bool) {
	dir := workDir
	if dir == "" {
		dir = os.TempDir()
	}
	d, err := os.MkdirTemp(dir, "fmtfile")
	if err != nil {
		return "", false
	}
	defer os.RemoveAll(d)
	file := filepath.Join(d, "x.templ")
	if os.WriteFile(file, []byte(src), 0o644) != nil {
		return "", false
	}
	var out bytes.Buffer
	if err := fmtcmd.Run(quietLog, strings.NewReader(""), &out, fmtcmd.Arguments{Files: []string{file}, WorkerCount: 1}); err != nil {
		return "", false
	}
	b, err := os.ReadFile(file)
	if err != nil {
		return "", false
	}
	return string(b), true
}

// declaredImports: local name -> path of every import of a Go file (the last path element when no name is given).
func declaredImports(code string) map[string]string {
	out := map[string]string{}
	f, err := goparser.ParseFile(token.NewFileSet(), "x.go", code, goparser.ImportsOnly)
	if err != nil {
		return out
	}
	for _, imp := range f.Imports {
		p, _ := strconv.Unquote(imp.Path.Value)
		name := p[strings.LastIndex(p, "/")+1:]
		if imp.Name != nil {
			name = imp.Name.Name
		}
		out[name] = p
	}
	return out
}

// usedImports: the imports of a Go file whose local name occurs as the qualifier of a selector (`name.X`) that refers to
// no declaration of the file.
func usedImports(code string) map[string]string {
	out := map[string]string{}
	f, err := goparser.ParseFile(token.NewFileSet(), "x.go", code, 0)
	if err != nil {
		return out
	}
	decl := declaredImports(code)
	ast.Inspect(f, func(n ast.Node) bool {
		if sel, ok := n.(*ast.SelectorExpr); ok {
			if id, ok := sel.X.(*ast.Ident); ok && id.Obj == nil {
				if p, ok := decl[id.Name]; ok {
					out[id.Name] = p
				}
			}
		}
		return true
	})
	return out
}
