package main

import (
	"bytes"
	"go/format"
	"os"
	"path/filepath"
	"regexp"
	"strings"

	"github.com/a-h/templ/generator"
	parser "github.com/a-h/templ/parser/v2"
)

func init() {
	register("C08", func(e *emitter, tier string, seed uint64) { runFmt(e, tier, seed, "C08") })
	register("C09", func(e *emitter, tier string, seed uint64) { runFmt(e, tier, seed, "C09") })
}

// fmtTempl is what `templ fmt` does with stdin: Write(ParseString(src)).
func fmtTempl(src string) (string, error) {
	tf, err := parser.ParseString(src)
	if err != nil {
		return "", err
	}
	var b bytes.Buffer
	if err := tf.Write(&b); err != nil {
		return "", err
	}
	return b.String(), nil
}

var lineColRe = regexp.MustCompile(`Line: \d+, Col: \d+`)

// genNormalised: generate, mask the source positions embedded in error values, gofmt.
func genNormalised(src string) (string, error) {
	tf, err := parser.ParseString(src)
	if err != nil {
		return "", err
	}
	var b bytes.Buffer
	if _, err = generator.Generate(tf, &b, generator.WithFileName("x.templ")); err != nil {
		return "", err
	}
	out, err := format.Source(b.Bytes())
	if err != nil {
		return "", err
	}
	return lineColRe.ReplaceAllString(string(out), "Line: 0, Col: 0"), nil
}

// repoTemplates returns the .templ sources in the repository (corpus that the suite's golden files come from).
func repoTemplates() []string {
	var out []string
	filepath.Walk(repoDir, func(p string, info os.FileInfo, err error) error {
		if err != nil {
			return nil
		}
		if info.IsDir() && (info.Name() == ".git" || info.Name() == "node_modules") {
			return filepath.SkipDir
		}
		if strings.HasSuffix(p, ".templ") {
			if b, err := os.ReadFile(p); err == nil {
				out = append(out, string(b))
			}
		}
		return nil
	})
	return out
}

func runFmt(e *emitter, tier string, seed uint64, prop string) {
	do := func(src string, origin string) {
		if !e.mine(src) {
			return
		}
		g0, err := genNormalised(src)
		if err != nil {
			e.count("rejected:" + origin)
			return // not accepted by parse + generate + gofmt: outside the quantifier
		}
		f1, err1 := fmtTempl(src)
		if prop == "C09" {
			f2, err2 := "", err1
			if err1 == nil {
				f2, err2 = fmtTempl(f1)
			}
			a, b := hx(f1), hx(f2)
			if err1 != nil {
				a = "ERR"
			}
			if err2 != nil {
				b = "ERR"
			}
			e.emit(src, "fmt", origin, hx(src), a, b)
			return
		}
		g1S := "ERR"
		f1S := "ERR"
		if err1 == nil {
			f1S = hx(f1)
			if g1, err := genNormalised(f1); err == nil {
				g1S = hx(g1)
			} else {
				g1S = "ERR:" + hx(err.Error())
			}
		}
		e.emit(src, "gen", origin, hx(src), f1S, hx(g0), g1S)
	}
	for _, f := range e.corpusLines() {
		if len(f) >= 4 && (f[1] == "fmt" || f[1] == "gen") {
			do(unhx(f[3]), "corpus")
		}
	}
	if e.onlyCorpus {
		return
	}
	for _, s := range repoTemplates() {
		do(s, "repo")
	}
	r := &rng{s: seed}
	n := 1500
	if tier == "thorough" {
		n = 40000
	}
	agg := map[string]int{}
	for i := 0; i < n; i++ {
		g := newTgen(r, 2+r.intn(3))
		src := g.file()
		if r.chance(1, 10) {
			src = strings.ReplaceAll(src, "\n", "\r\n")
		}
		do(src, "generated")
		for k, v := range g.counts {
			agg[k] += v
		}
	}
	for k, v := range agg {
		e.counters["node:"+k] += v
	}
}
