package main

import (
	"net/http/httptest"
	"bytes"
	"context"
	"encoding/hex"
	"fmt"
	"sort"
	"strings"

	"github.com/a-h/templ"
	"golang.org/x/net/html"
	"verif/harness/tmpl"
)

func init() { register("C01", runC01) }

const c01Marker = "zzMARKzz"

// c01Tokens serialises the x/net/html token stream of a document (reference tokenizer for the Lean spec).
func c01Tokens(doc string) string {
	z := html.NewTokenizer(strings.NewReader(doc))
	var sb strings.Builder
	for {
		tt := z.Next()
		if tt == html.ErrorToken {
			break
		}
		t := z.Token()
		switch tt {
		case html.TextToken:
			sb.WriteString("T:" + hx(t.Data) + ";")
		case html.StartTagToken, html.SelfClosingTagToken:
			sb.WriteString("S:" + hx(t.Data) + ":")
			for i, a := range t.Attr {
				if i > 0 {
					sb.WriteByte(',')
				}
				sb.WriteString(hx(a.Key) + "=" + hx(a.Val))
			}
			if tt == html.SelfClosingTagToken {
				sb.WriteString(":1;")
			} else {
				sb.WriteString(":0;")
			}
		case html.EndTagToken:
			sb.WriteString("E:" + hx(t.Data) + ";")
		case html.CommentToken:
			sb.WriteString("C:" + hx(t.Data) + ";")
		case html.DoctypeToken:
			sb.WriteString("D:" + hx(t.Data) + ";")
		}
	}
	if sb.Len() == 0 {
		return "-"
	}
	return sb.String()
}

func render(c templ.Component, ctx context.Context) string {
	var buf bytes.Buffer
	if err := c.Render(ctx, &buf); err != nil {
		return "RENDER-ERROR:" + err.Error()
	}
	return buf.String()
}

type c01Sink struct {
	name string
	mode string // verbatim | structure
	mk   func(s string) (templ.Component, context.Context)
}

func c01Sinks() []c01Sink {
	bg := context.Background()
	plain := func(f func(s string) templ.Component) func(string) (templ.Component, context.Context) {
		return func(s string) (templ.Component, context.Context) { return f(s), bg }
	}
	return []c01Sink{
		{"text", "verbatim", plain(func(s string) templ.Component { return tmpl.TextSink(s) })},
		{"text-inline", "verbatim", plain(func(s string) templ.Component { return tmpl.TextSinkInline(s) })},
		{"text-err", "verbatim", plain(func(s string) templ.Component { return tmpl.TextSinkErr(s) })},
		{"text-concat", "verbatim", plain(func(s string) templ.Component { return tmpl.TextConcatSink(s) })},
		{"attr-concat", "verbatim", plain(func(s string) templ.Component { return tmpl.AttrConcatSink(s) })},
		{"attr", "verbatim", plain(func(s string) templ.Component { return tmpl.AttrSink(s) })},
		{"attr-last", "verbatim", plain(func(s string) templ.Component { return tmpl.AttrSinkLast(s) })},
		{"cond-attr-then", "verbatim", plain(func(s string) templ.Component { return tmpl.CondAttrSink(true, s) })},
		{"cond-attr-else", "verbatim", plain(func(s string) templ.Component { return tmpl.CondAttrSink(false, s) })},
		{"spread-string", "verbatim", plain(func(s string) templ.Component { return tmpl.SpreadSink(templ.Attributes{"data-v": s, "id": "k"}) })},
		{"spread-ptr", "verbatim", plain(func(s string) templ.Component { return tmpl.SpreadSink(templ.Attributes{"data-v": &s, "z": true}) })},
		{"spread-kv", "verbatim", plain(func(s string) templ.Component {
			return tmpl.SpreadSink(templ.Attributes{"data-v": templ.KV(s, true), "a": templ.KV("no", false)})
		})},
		{"class", "verbatim", plain(func(s string) templ.Component { return tmpl.ClassSink(s) })},
		{"class-multi", "structure", plain(func(s string) templ.Component { return tmpl.ClassSinkMulti(s, s+"2", true) })},
		{"style-string", "structure", plain(func(s string) templ.Component { return tmpl.StyleSink(s) })},
		{"style-map", "structure", plain(func(s string) templ.Component { return tmpl.StyleSink(map[string]string{"color": s, s: "red"}) })},
		{"style-fontfamily", "structure", plain(func(s string) templ.Component { return tmpl.StyleSink(map[string]string{"font-family": s}) })},
		{"style-fontfamily-quoted", "structure", plain(func(s string) templ.Component {
			return tmpl.StyleSink(map[string]string{"font-family": "\"" + s + "\""})
		})},
		{"style-kv-fontfamily", "structure", plain(func(s string) templ.Component { return tmpl.StyleSink(templ.KV("font-family", "\""+s+"\"")) })},
		{"style-bgimage", "structure", plain(func(s string) templ.Component {
			return tmpl.StyleSink(map[string]string{"background-image": "url(\"" + s + "\")"})
		})},
		{"style-kv-safecss", "structure", plain(func(s string) templ.Component { return tmpl.StyleSink(templ.KV(templ.SafeCSS(s), true)) })},
		{"style-safecss", "structure", plain(func(s string) templ.Component { return tmpl.StyleSink(templ.SafeCSS(s)) })},
		{"href", "verbatim", plain(func(s string) templ.Component { return tmpl.HrefSink(templ.SafeURL(s)) })},
		{"action", "verbatim", plain(func(s string) templ.Component { return tmpl.ActionSink(templ.SafeURL(s)) })},
		{"textarea", "verbatim", plain(func(s string) templ.Component { return tmpl.TextareaSink(s) })},
		{"title", "verbatim", plain(func(s string) templ.Component { return tmpl.TitleSink(s) })},
		{"jsonscript-id", "verbatim", plain(func(s string) templ.Component { return templ.JSONScript(s, 1) })},
		{"jsonscript-type", "verbatim", plain(func(s string) templ.Component { return templ.JSONScript("i", 1).WithType(s) })},
		{"jsonscript-nonce", "verbatim", plain(func(s string) templ.Component { return templ.JSONScript("i", 1).WithNonceFromString(s) })},
		{"jsonscript-ctx-nonce", "verbatim", func(s string) (templ.Component, context.Context) {
			return templ.JSONScript("i", 1), templ.WithNonce(bg, s)
		}},
		{"script-nonce", "verbatim", func(s string) (templ.Component, context.Context) {
			return tmpl.ScriptNonceSink("n"), templ.WithNonce(bg, s)
		}},
		{"style-element-under-nonce", "structure", func(s string) (templ.Component, context.Context) {
			return tmpl.CSSComponentSink(tmpl.DynCSS("color", "red")), templ.WithNonce(bg, s)
		}},
		{"script-nonce-in-children", "verbatim", func(s string) (templ.Component, context.Context) {
			return tmpl.ScriptNonceInChildren("n"), templ.WithNonce(bg, s)
		}},
	}
}

func encodeAttrs(keys []string, attrs templ.Attributes, desc map[string]string) string {
	parts := []string{}
	for _, k := range keys {
		parts = append(parts, hx(k)+":"+desc[k])
	}
	if len(parts) == 0 {
		return "-"
	}
	return strings.Join(parts, ",")
}

func runC01(e *emitter, tier string, seed uint64) {
	sinks := c01Sinks()
	sinkByName := map[string]c01Sink{}
	for _, s := range sinks {
		sinkByName[s.name] = s
	}
	doSink := func(sk c01Sink, s string) {
		key := "sink " + sk.name + " " + s
		if !e.mine(key) || s == "" && sk.mode == "verbatim" {
			return
		}
		c1, ctx1 := sk.mk(s)
		c2, ctx2 := sk.mk(c01Marker)
		docS := render(c1, ctx1)
		docM := render(c2, ctx2)
		e.emit(key, "sink", sk.name, sk.mode, hx(s), hx(c01Marker), hx(docS), hx(docM), c01Tokens(docS))
	}
	doEsc := func(s string) {
		if e.mine("esc " + s) {
			e.emit("esc "+s, "esc", hx(s), hx(templ.EscapeString(s)))
		}
	}
	for _, f := range e.corpusLines() {
		if len(f) >= 3 && f[0] == "C01" && f[1] == "esc" {
			doEsc(unhx(f[2]))
		}
		if len(f) >= 5 && f[0] == "C01" && f[1] == "sink" {
			if sk, ok := sinkByName[f[2]]; ok {
				doSink(sk, unhx(f[4]))
			}
		}
	}
	if e.onlyCorpus {
		return
	}
	alphabet := []string{"&", "<", ">", "\"", "'", "/", "=", " ", "\x00", "\r", "\n", "\t", "a", "é", "\xff", "\xc3", " ", "%", ";", "#"}
	n := 3
	if tier == "thorough" {
		n = 5
	}
	enumerate(alphabet, n, doEsc)
	adversarial := []string{
		"<script>alert(1)</script>", "\"><img src=x onerror=alert(1)>", "' onmouseover='alert(1)", "</p><p>", "&amp;", "&lt;", "&#34;", "&quot;",
		"&amp", "a&b", "--><!--", "<!--", "]]>", "\x00", "a\x00b", "\r\n", "a\rb", "\xff\xfe", "\xc3", "é", "日本語", " ", "%s", "100%", "%!d(string=x)",
		"a%%b", "`", "{{", "}}", "${x}", "\\", "\\\"", " ", "  a  b  ", "\t", "=", "/", "/>", "a=b", "x y", "javascript:alert(1)", "</textarea><script>", "</title>",
		"</script>", "x", "x\" onmouseover=\"alert(1)", "Arial", "/a.png", "<", ">", "\"", "'", "&", "&#x3C;", "&#60;", "<a", "a>", "\"a", "a\"", "'a", "a'", "&a", "a&", ";", "&;", "p;", "amp;", "#34;", "lt;", "Zz", "ZZMARKZZ",
		strings.Repeat("<", 50), strings.Repeat("&\"'<>", 40),
	}
	small := []string{"&", "<", ">", "\"", "'", " ", "a", "\x00", "\r", "\xff", "%", "/", "="}
	var shorts []string
	sl := 2
	if tier == "thorough" {
		sl = 3
	}
	enumerate(small, sl, func(s string) { shorts = append(shorts, s) })
	for _, sk := range sinks {
		for _, s := range adversarial {
			doSink(sk, s)
		}
		for _, s := range shorts {
			doSink(sk, s)
		}
	}
	r := &rng{s: seed}
	nr := 2000
	if tier == "thorough" {
		nr = 60000
	}
	for i := 0; i < nr; i++ {
		var sb strings.Builder
		for k := r.intn(24); k >= 0; k-- {
			if r.chance(1, 5) {
				sb.WriteString(r.pick(adversarial))
			} else {
				sb.WriteString(r.pick(alphabet))
			}
		}
		doSink(sinks[r.intn(len(sinks))], sb.String())
		if i%4 == 0 {
			doEsc(sb.String())
		}
	}
	// RenderAttributes against the model on generated maps of every value kind
	keyPool := []string{"id", "class", "data-x", "title", "x", "hx-get", "a&b", "k\"q", "k<", "z"}
	na := 3000
	if tier == "thorough" {
		na = 60000
	}
	for i := 0; i < na; i++ {
		attrs := templ.Attributes{}
		desc := map[string]string{}
		for k := r.intn(5); k >= 0; k-- {
			key := r.pick(keyPool)
			v := r.pick(adversarial)
			switch r.intn(12) {
			case 0, 1, 2:
				attrs[key] = v
				desc[key] = "s:" + hx(v)
			case 3:
				vv := v
				attrs[key] = &vv
				desc[key] = "sp:" + hx(v)
			case 4:
				attrs[key] = (*string)(nil)
				desc[key] = "spn"
			case 5:
				b := r.chance(1, 2)
				attrs[key] = b
				desc[key] = fmt.Sprintf("b:%t", b)
			case 6:
				b := r.chance(1, 2)
				if r.chance(1, 3) {
					attrs[key] = (*bool)(nil)
					desc[key] = "bpn"
				} else {
					attrs[key] = &b
					desc[key] = fmt.Sprintf("bp:%t", b)
				}
			case 7, 8:
				b := r.chance(2, 3)
				attrs[key] = templ.KV(v, b)
				desc[key] = fmt.Sprintf("ksb:%s:%t", hx(v), b)
			case 9:
				b1, b2 := r.chance(1, 2), r.chance(2, 3)
				attrs[key] = templ.KV(b1, b2)
				desc[key] = fmt.Sprintf("kbb:%t:%t", b1, b2)
			case 10:
				b := r.chance(1, 2)
				attrs[key] = func() bool { return b }
				desc[key] = fmt.Sprintf("fn:%t", b)
			case 11:
				attrs[key] = 42
				desc[key] = "o"
			}
		}
		keys := make([]string, 0, len(attrs))
		for k := range attrs {
			keys = append(keys, k)
		}
		// deliberately NOT sorted the way the implementation sorts: the model sorts for itself
		sort.Sort(sort.Reverse(sort.StringSlice(keys)))
		var buf bytes.Buffer
		out := "ERR"
		if err := templ.RenderAttributes(context.Background(), &buf, attrs); err == nil {
			out = hx(buf.String())
		}
		enc := encodeAttrs(keys, attrs, desc)
		e.emit("attrs "+enc, "attrs", enc, out)
	}
	// JSONScript opening tag against the model
	nj := 1500
	if tier == "thorough" {
		nj = 30000
	}
	for i := 0; i < nj; i++ {
		pick := func() string {
			if r.chance(1, 5) {
				return ""
			}
			return r.pick(adversarial)
		}
		id, typ, nonce := pick(), pick(), pick()
		doc := render(templ.JSONScript(id, 7).WithType(typ).WithNonceFromString(nonce), context.Background())
		open := doc
		if j := strings.Index(doc, ">"); j >= 0 {
			open = doc[:j+1]
		}
		e.emit("jsonopen "+id+"\x00"+typ+"\x00"+nonce, "jsonopen", hx(id), hx(typ), hx(nonce), hx(open), hx(doc))
	}
	// static text that stops inside a character reference, followed by a string (fixed inputs on which the
	// simplified reference table of the specification and x/net/html agree)
	amp := c01Sink{"text-after-amp", "verbatim", func(s string) (templ.Component, context.Context) { return tmpl.TextAfterAmpSink(s), context.Background() }}
	for _, s := range []string{"lt;", "gt;", "amp;", "#34;", "#39;", "x", "<b>", "&", ";", " lt;", "\"'", "l"} {
		doSink(amp, s)
	}
	// a fragment converted for html/template (templ.ToGoHTML) stays what it was while other components are rendered
	// through the same buffer pool before it is used
	if e.mine("gohtml") {
		bgc := context.Background()
		for i, s := range []string{"<b>&\"'", "Tom & Jerry", strings.Repeat("x<", 300), "a"} {
			want := render(tmpl.AttrSink(s), bgc) + render(tmpl.TextSink(s), bgc)
			fragA, errA := templ.ToGoHTML(bgc, tmpl.AttrSink(s))
			fragB, errB := templ.ToGoHTML(bgc, tmpl.TextSink(s))
			// other renders in between: another conversion and a buffered handler response
			_, _ = templ.ToGoHTML(bgc, tmpl.TextSink("OTHER-"+strings.Repeat("o", 40*i)))
			rec := httptest.NewRecorder()
			templ.Handler(tmpl.TextSink("secret\"><h1>")).ServeHTTP(rec, httptest.NewRequest("GET", "/", nil))
			got := string(fragA) + string(fragB)
			if errA != nil || errB != nil {
				got = "ERR"
			}
			e.emit(fmt.Sprintf("gohtml %d", i), "gohtml", hx(s), hx(want), hx(got))
		}
	}
	// whole templates of the markup fragment (composition theorem)
	c01Compose(e, tier, seed)
}

var _ = hex.EncodeToString
