package main

import (
	"errors"
	"bytes"
	"fmt"
	"reflect"
	"sort"
	"strings"
	"time"

	"github.com/a-h/parse"
	"github.com/a-h/templ/generator"
	parser "github.com/a-h/templ/parser/v2"
)

func init() {
	register("C06", runC06)
	register("C07", runC07)
}

type exprRef struct {
	path  string
	value string
	rng   parser.Range
}

type nameRef struct {
	kind string
	name string
	rng  parser.Range
}

var exprType = reflect.TypeOf(parser.Expression{})
var rangeType = reflect.TypeOf(parser.Range{})

// walkTree collects every parser.Expression in the tree and every (Name, NameRange) pair.
func walkTree(v reflect.Value, path string, exprs *[]exprRef, names *[]nameRef, depth int) {
	if depth > 200 {
		return
	}
	switch v.Kind() {
	case reflect.Interface, reflect.Ptr:
		if !v.IsNil() {
			walkTree(v.Elem(), path, exprs, names, depth+1)
		}
	case reflect.Slice, reflect.Array:
		for i := 0; i < v.Len(); i++ {
			walkTree(v.Index(i), path, exprs, names, depth+1)
		}
	case reflect.Struct:
		if v.Type() == exprType {
			e := v.Interface().(parser.Expression)
			*exprs = append(*exprs, exprRef{path, e.Value, e.Range})
			return
		}
		t := v.Type()
		if nf, ok := t.FieldByName("NameRange"); ok && nf.Type == rangeType {
			if sf, ok := t.FieldByName("Name"); ok && sf.Type.Kind() == reflect.String {
				*names = append(*names, nameRef{t.Name(), v.FieldByName("Name").String(), v.FieldByName("NameRange").Interface().(parser.Range)})
			}
		}
		for i := 0; i < v.NumField(); i++ {
			if t.Field(i).IsExported() {
				walkTree(v.Field(i), t.Name()+"."+t.Field(i).Name, exprs, names, depth+1)
			}
		}
	}
}

func posS(p parser.Position) string { return fmt.Sprintf("%d,%d,%d", p.Index, p.Line, p.Col) }

// parseGuarded runs the real parser with panic recovery and a time limit.
func parseGuarded(src string) (tf parser.TemplateFile, outcome string, errText string, dur time.Duration) {
	type res struct {
		tf  parser.TemplateFile
		err error
		pan any
	}
	ch := make(chan res, 1)
	t0 := time.Now()
	go func() {
		var r res
		defer func() {
			if p := recover(); p != nil {
				r.pan = p
			}
			ch <- r
		}()
		r.tf, r.err = parser.ParseString(src)
	}()
	select {
	case r := <-ch:
		dur = time.Since(t0)
		switch {
		case r.pan != nil:
			return tf, "panic", fmt.Sprint(r.pan), dur
		case r.err != nil:
			// the structured position of a parse error (index, line, column), for the in-bounds / consistency check
			var pe parse.ParseError
			if errors.As(r.err, &pe) {
				return tf, "err", fmt.Sprintf("%s @@%d,%d,%d", r.err.Error(), pe.Pos.Index, pe.Pos.Line, pe.Pos.Col), dur
			}
			return tf, "err", r.err.Error(), dur
		}
		return r.tf, "ok", "", dur
	case <-time.After(3 * time.Second):
		return tf, "timeout", "", 3 * time.Second
	}
}

func encExprs(exprs []exprRef) string {
	if len(exprs) == 0 {
		return "-"
	}
	parts := make([]string, len(exprs))
	for i, e := range exprs {
		parts[i] = hx(e.path) + "|" + hx(e.value) + "|" + posS(e.rng.From) + "|" + posS(e.rng.To)
	}
	return strings.Join(parts, ";")
}

func encNames(names []nameRef) string {
	if len(names) == 0 {
		return "-"
	}
	parts := make([]string, len(names))
	for i, n := range names {
		parts[i] = hx(n.kind) + "|" + hx(n.name) + "|" + posS(n.rng.From) + "|" + posS(n.rng.To)
	}
	return strings.Join(parts, ";")
}

var c06Seeds = []string{
	// script templates whose parameter list spans lines (LF and CRLF)
	"package main\n\nscript show(id string,\n\tmsg string) {\n\tconsole.log(id, msg);\n}\n\ntempl T() {\n\t<p>x</p>\n}\n",
	"package main\n\nscript show(\n\tid string,\n\tmsg string,\n) {\n\tconsole.log(id, msg);\n}\n",
	"package main\r\n\r\nscript show(id string,\r\n\tmsg string) {\r\n\tconsole.log(id, msg);\r\n}\r\n",
	// an @ that is not a call, close to the end of a file that has a longer call before it
	"package main\n\ntempl Layout(t string, b bool) {\n\t<p>{ t }</p>\n}\n\ntempl T() {\n\t@Layout(\"Opening hours\", true)\n\t<p>@ 5pm</p>\n}\n",
	"package main\n\ntempl T() {\n\t@Layout(\"Opening hours\", true)\n\t@",
	"package main\n\ntempl T() {\n\t@\n}\n",
	// spellings seeded changes needed: a tab after the script keyword; the dots of a spread attribute on a later line
	"package main\n\nscript\thello(name string) {\n\tconsole.log(name);\n}\n\ntempl T() {\n\t<p>x</p>\n}\n",
	"package main\nscript\t(",
	"package x\n\ntempl T(a templ.Attributes) {\n\t<div { a\n\t\t... }>x</div>\n\t<p { a ... }>y</p>\n\t<i { a... }>z</i>\n}\n",
	"package x\r\n\r\ntempl T(a templ.Attributes) {\r\n\t<div if true {\r\n\t\t{ a\r\n\t\t\t... }\r\n\t}>x</div>\r\n}\r\n",
	// witnesses of repaired defects: Unicode white space in front of a top-level Go block; a doc comment block; (an invalid
	// UTF-8 byte inside Go code is now rejected by templ generate, so it cannot appear in an accepted file)
	"package x\n\n\u00a0var x = 1\n\ntempl t() {\n\t<p></p>\n}\n",
	"package main\n\nvar x = \"a\xffb\" + \"tail\"\n\ntempl t() {\n\t<p>{ x }</p>\n}\n",
	"package main\n\ntempl t(x string) {\n\t<p>{ x /* \xff */ + \"tail\" }</p>\n}\n",
	"package x\n\n\u2003\u00a0import \"fmt\"\n\nvar y = fmt.Sprint\n// doc\ntempl t() {\n\t<p>{ y(1) }</p>\n}\n\nvar z = 2\n",
	"package x\n\ntempl  Hello(name  string)  {\n\t<p>{ name }</p>\n}\n\ncss  red()  {\n\tcolor: red;\n}\n\nscript  sc(a string)  {\n\tconsole.log(a);\n}\n\ntempl (p  P)  M() {\n\t@Hello(\"x\")\n}\n",
	"package x\n\ntempl T(s string) {\n\t<p>é日本 { s } 😀{ s }</p>\n}\n",
	"package x\r\n\r\ntempl T(s string) {\r\n\t<div class={ \"a\",\r\n\t\ts }>x</div>\r\n}\r\n",
	"// header é\npackage x\n\nimport \"fmt\"\n\nvar a = `é`\n\ntempl (p P) T(items []string) {\n\tfor _, i := range items {\n\t\t{ fmt.Sprint(\n\t\t\ti) }\n\t}\n}\n",
	"package x\n\ncss c(w string) {\n\twidth: { w };\n}\n\nscript s(a string) {\n\tconsole.log(a);\n}\n\ntempl T() {\n\t<script>const v = {{ 1 }}; const w = \"é{{ 2 }}\";</script>\n}\n",
	"package x\n\ntempl T(b bool, a templ.Attributes) {\n\t<input é=\"1\" if b {\n\t\tdisabled\n\t} { a... } checked?={ b }/>\n\t@T(b, a) {\n\t\t{ children... }\n\t}\n\tswitch b {\n\t\tcase true:\n\t\t\t{{ x := 1 }}\n\t\tdefault:\n\t\t\t{! T(b, a) }\n\t}\n}\n",
}

func runC06(e *emitter, tier string, seed uint64) {
	r := &rng{s: seed}
	doFile := func(src, origin string) {
		if !e.mine("file " + src) {
			return
		}
		tf, outcome, errText, dur := parseGuarded(src)
		slow := "0"
		if dur > 500*time.Millisecond {
			slow = "1"
		}
		exS, nmS := "-", "-"
		accepted := "0"
		if outcome == "ok" {
			var exprs []exprRef
			var names []nameRef
			walkTree(reflect.ValueOf(tf), "TemplateFile", &exprs, &names, 0)
			exS, nmS = encExprs(exprs), encNames(names)
			if _, err := genNormalised(src); err == nil {
				accepted = "1"
			}
		}
		e.emit("file "+src, "file", origin, hx(src), outcome, hx(errText), slow, accepted, exS, nmS)
	}
	doPos := func(s string, i int) {
		k := fmt.Sprintf("pos %s %d", s, i)
		if !e.mine(k) {
			return
		}
		p := parse.NewInput(s).PositionAt(i)
		e.emit(k, "pos", hx(s), fmt.Sprint(i), fmt.Sprintf("%d,%d,%d", p.Index, p.Line, p.Col))
	}
	for _, f := range e.corpusLines() {
		if len(f) >= 4 && f[0] == "C06" && f[1] == "file" {
			doFile(unhx(f[3]), "corpus")
		}
	}
	if e.onlyCorpus {
		return
	}
	// PositionAt correspondence: exhaustive over {a, LF, é} up to 6 symbols and every index
	enumerate([]string{"a", "\n", "é"}, 5, func(s string) {
		for i := 0; i <= len(s); i++ {
			doPos(s, i)
		}
	})
	base := append(append([]string{}, c06Seeds...), repoTemplates()...)
	n := 300
	if tier == "thorough" {
		n = 8000
	}
	for i := 0; i < n; i++ {
		base = append(base, newTgen(r, 2+r.intn(3)).file())
	}
	for i, s := range base {
		doFile(s, "whole")
		// the same file behind a byte order mark: positions are positions in the bytes handed in
		if i%8 == 0 {
			doFile("\ufeff"+s, "bom")
		}
		// ... and with CRLF line ends (top-level Go blocks of several lines included)
		if i%6 == 1 {
			doFile(strings.ReplaceAll(s, "\n", "\r\n"), "crlf")
		}
	}
	// truncations and structure-aware mutations
	tokens := []string{"{", "}", "{{", "}}", "<", ">", "</", "/>", "\"", "'", "`", "@", "if ", "else", "for ", "switch ", "case ", "templ ", "css ", "script ", "<!--", "-->", "//", "/*", "*/",
		"é", "日本", "\r\n", "\n", "\t", "{ children... }", "{!", "...", "=", "?=", "\xff", "\x00", "(", ")", "<script>", "</script>", "<style>", "func", "package ", "import \"",
		"@func", "@func()", "@f(func(int) string(nil))", "@a.b(func() {})", "templ  X() {\n}\n", "css  c() {\n}\n", "script  s() {\n}\n", "templ\tY(a  string)  {\n}\n", "@x.y(", "{ f(", "{{ a :=", "`", "'\\''",
		"} else if", "}else if", "} else", "else if", "} else if b", "} else {", "\n} else if", "case", "default:", "for", "if", "switch",
		"script\thello(name string) {\n", "\nscript\t(", "\ncss\tc() {\n}\n", "\ntempl\tZ() {\n}\n", " ... }", "\n\t\t... }", "{ a ... }", "{ a\n... }"}
	// deep nesting: parse time must stay proportional to the input (a block parsed once for the look-ahead and again
	// for real doubles the work per level)
	for _, d := range []int{12, 18, 24} {
		for _, mid := range []string{"} else {\n", "} else if b {\n", "}\nfor _, item := range items {\n", "}\nswitch s {\ncase \"a\":\n", "<div>\n", "@wrap(s) {\n"} {
			var sb strings.Builder
			sb.WriteString(tgenPrelude + "templ T(" + tgenSig + ") {\n")
			closers := 0
			for i := 0; i < d; i++ {
				switch {
				case strings.HasPrefix(mid, "} else"):
					sb.WriteString("if b {\n<b></b>\n" + mid)
				case strings.HasPrefix(mid, "}\n"):
					sb.WriteString("if b {\n<b></b>\n" + mid)
				default:
					sb.WriteString(mid)
				}
				closers++
			}
			sb.WriteString("<i></i>\n")
			for i := 0; i < closers; i++ {
				if mid == "<div>\n" {
					sb.WriteString("</div>\n")
				} else {
					sb.WriteString("}\n")
				}
			}
			sb.WriteString("}\n")
			doFile(sb.String(), "nested")
		}
	}
	// every token at the very end of a file, after a few fixed openings (deterministic: independent of the seed)
	for _, pre := range []string{"package x\n\n", "package x\n\ntempl T() {\n\t", "package x\n\ntempl T() {\n\t<div>\n\t\t", "package x\n\ntempl T() {\n\t<div a={ s }", "package x\n\ntempl T() {\n\tif x {\n\t\t", "package x\n\ntempl T() {\n\tif x {\n\t\t<b></b>\n\t", "package x\n\ntempl T() {\n\t<p>\n\t\tif x {\n\t\t\ty\n\t\t"} {
		for _, tk := range tokens {
			doFile(pre+tk, "ended-by-token")
		}
	}
	nm := 4000
	if tier == "thorough" {
		nm = 200000
	}
	for i := 0; i < nm; i++ {
		s := base[r.intn(len(base))]
		if len(s) == 0 {
			continue
		}
		b := []byte(s)
		switch r.intn(7) {
		case 0: // truncation
			b = b[:r.intn(len(b)+1)]
		case 1: // token insertion
			p := r.intn(len(b) + 1)
			b = append(b[:p:p], append([]byte(r.pick(tokens)), b[p:]...)...)
		case 2: // deletion of a span
			p := r.intn(len(b))
			q := p + 1 + r.intn(8)
			if q > len(b) {
				q = len(b)
			}
			b = append(b[:p:p], b[q:]...)
		case 3: // duplication of a span
			p := r.intn(len(b))
			q := p + 1 + r.intn(20)
			if q > len(b) {
				q = len(b)
			}
			b = append(b[:q:q], append(append([]byte{}, b[p:q]...), b[q:]...)...)
		case 4: // byte flip
			b[r.intn(len(b))] = byte(r.intn(256))
		case 5: // truncate, then end the file with a token
			b = append(b[:r.intn(len(b)+1)], []byte(r.pick(tokens))...)
		default: // several token insertions
			for k := 0; k < 3; k++ {
				p := r.intn(len(b) + 1)
				b = append(b[:p:p], append([]byte(r.pick(tokens)), b[p:]...)...)
			}
		}
		doFile(string(b), "mutated")
	}
	for i := 0; i < nm/20; i++ {
		b := make([]byte, r.intn(60))
		for j := range b {
			b[j] = byte(r.intn(256))
		}
		doFile("package x\n"+string(b), "random")
	}
}

func dumpMap(m map[uint32]map[uint32]parser.Position) string {
	var parts []string
	for l, cm := range m {
		for c, p := range cm {
			parts = append(parts, fmt.Sprintf("%d:%d=%d,%d,%d", l, c, p.Index, p.Line, p.Col))
		}
	}
	sort.Strings(parts)
	if len(parts) == 0 {
		return "-"
	}
	return strings.Join(parts, ";")
}

func runC07(e *emitter, tier string, seed uint64) {
	r := &rng{s: seed}
	c07LSP(e)
	// 1. SourceMap.Add against the model on synthetic add sequences
	vals := []string{"a", "abc", "é", "日本語", "a\nb", "x\n\ny", "", "f(\n\ta,\n\tb)", "😀", "a\r\nb", "s + \"é\""}
	na := 400
	if tier == "thorough" {
		na = 20000
	}
	for i := 0; i < na; i++ {
		sm := parser.NewSourceMap()
		var enc []string
		for k := 1 + r.intn(4); k > 0; k-- {
			v := r.pick(vals)
			sf := parser.NewPosition(int64(r.intn(300)), uint32(r.intn(6)), uint32(r.intn(30)))
			tfp := parser.NewPosition(int64(r.intn(3000)), uint32(r.intn(40)), uint32(r.intn(30)))
			sm.Add(parser.Expression{Value: v, Range: parser.Range{From: sf}}, parser.Range{From: tfp})
			enc = append(enc, hx(v)+"|"+posS(sf)+"|"+posS(tfp))
		}
		k := "smadd " + strings.Join(enc, ";")
		e.emit(k, "smadd", strings.Join(enc, ";"), dumpMap(sm.SourceLinesToTarget), dumpMap(sm.TargetLinesToSource))
	}
	// 1b. AddSymbolRange against the model: small coordinates, so that several symbols start on one line
	rngS := func(g parser.Range) string { return posS(g.From) + "|" + posS(g.To) }
	for i := 0; i < na/2; i++ {
		sm := parser.NewSourceMap()
		type ad struct{ src, tgt parser.Range }
		var adds []ad
		var enc []string
		for k := 1 + r.intn(5); k > 0; k-- {
			sl, sc := uint32(r.intn(3)), uint32(r.intn(4))
			tl, tc := uint32(r.intn(5)), uint32(r.intn(3))
			a := ad{
				parser.Range{From: parser.NewPosition(int64(sl*10+sc), sl, sc), To: parser.NewPosition(int64(sl*10+sc+5), sl+1, 1)},
				parser.Range{From: parser.NewPosition(int64(tl*100+tc), tl, tc), To: parser.NewPosition(int64(tl*100+tc+50), tl+3, 0)},
			}
			sm.AddSymbolRange(a.src, a.tgt)
			adds = append(adds, a)
			enc = append(enc, rngS(a.src)+"|"+rngS(a.tgt))
		}
		var res []string
		for _, a := range adds {
			t, ok1 := sm.SymbolTargetRangeFromSource(a.src.From.Line, a.src.From.Col)
			sr, ok2 := sm.SymbolSourceRangeFromTarget(a.tgt.From.Line, a.tgt.From.Col)
			x, y := "0", "0"
			if ok1 {
				x = rngS(t)
			}
			if ok2 {
				y = rngS(sr)
			}
			res = append(res, x+"/"+y)
		}
		e.emit("symadd "+strings.Join(enc, ";"), "symadd", strings.Join(enc, ";"), strings.Join(res, ";"))
	}
	// 2. RangeWriter positions against `advance`
	texts := []string{"a", "é", "x\ny", "\n", "日本\n語", "\t\tif x {\n", "", "😀😀", "a\r\nb"}
	for i := 0; i < na/2; i++ {
		var buf bytes.Buffer
		rw := generator.NewRangeWriter(&buf)
		var ins, outs []string
		for k := 1 + r.intn(6); k > 0; k-- {
			s := r.pick(texts)
			rg, _ := rw.Write(s)
			ins = append(ins, hx(s))
			outs = append(outs, posS(rg.From)+"|"+posS(rg.To))
		}
		e.emit("rw "+strings.Join(ins, ";"), "rw", strings.Join(ins, ";"), strings.Join(outs, ";"), hx(buf.String()))
	}
	// 3. real templates: every expression of the tree against the real source map
	// the generator's options decide what is written in front of the code (version, timestamp, "generated" comment):
	// the map must hold under each of them
	optSets := [][]generator.GenerateOpt{
		{generator.WithFileName("x.templ")},
		{generator.WithFileName("x.templ"), generator.WithTimestamp(time.Date(2024, 2, 29, 23, 59, 58, 0, time.UTC))},
		{generator.WithFileName("x.templ"), generator.WithVersion("v0.0.0-verif")},
		{generator.WithSkipCodeGeneratedComment()},
		{generator.WithVersion("v9"), generator.WithTimestamp(time.Unix(0, 0)), generator.WithSkipCodeGeneratedComment(), generator.WithFileName("dir/y.templ")},
	}
	nFile := 0
	doFile := func(src, origin string) {
		nFile++
		set := nFile % len(optSets)
		if origin == "seed" || origin == "corpus" {
			set = 0
		}
		if !e.mine("map " + src) {
			return
		}
		tf, err := parser.ParseString(src)
		if err != nil {
			return
		}
		var buf bytes.Buffer
		op, err := generator.Generate(tf, &buf, optSets[set]...)
		if err != nil {
			return
		}
		var exprs []exprRef
		var names []nameRef
		walkTree(reflect.ValueOf(tf), "TemplateFile", &exprs, &names, 0)
		e.emit("map "+src, "map", origin, hx(src), hx(buf.String()), encExprs(exprs), dumpMap(op.SourceMap.SourceLinesToTarget), dumpMap(op.SourceMap.TargetLinesToSource))
		// symbol ranges of the top-level declarations
		var syms []string
		for _, n := range tf.Nodes {
			kind, name, val := "", "", ""
			var rg parser.Range
			switch x := n.(type) {
			case parser.HTMLTemplate:
				kind, val, rg = "templ", x.Expression.Value, x.Range
			case *parser.HTMLTemplate:
				kind, val, rg = "templ", x.Expression.Value, x.Range
			case parser.CSSTemplate:
				kind, val, rg = "css", x.Expression.Value, x.Range
			case *parser.CSSTemplate:
				kind, val, rg = "css", x.Expression.Value, x.Range
			case parser.ScriptTemplate:
				kind, name, rg = "script", x.Name.Value, x.Range
			case *parser.ScriptTemplate:
				kind, name, rg = "script", x.Name.Value, x.Range
			case parser.TemplateFileGoExpression:
				kind, val, rg = "go", x.Expression.Value, x.Expression.Range
			case *parser.TemplateFileGoExpression:
				kind, val, rg = "go", x.Expression.Value, x.Expression.Range
			default:
				continue
			}
			if kind == "go" && strings.TrimSpace(val) == "" {
				continue
			}
			t, ok1 := op.SourceMap.SymbolTargetRangeFromSource(rg.From.Line, rg.From.Col)
			back := "0"
			found := "0"
			if ok1 {
				found = posS(t.From) + "|" + posS(t.To)
				if sr, ok2 := op.SourceMap.SymbolSourceRangeFromTarget(t.From.Line, t.From.Col); ok2 {
					back = posS(sr.From) + "|" + posS(sr.To)
				}
			}
			syms = append(syms, kind+"/"+hx(name)+"/"+hx(val)+"/"+posS(rg.From)+"|"+posS(rg.To)+"/"+found+"/"+back)
		}
		if len(syms) > 0 {
			e.emit("syms "+src, "syms", origin, hx(src), hx(buf.String()), strings.Join(syms, ";"))
		}
	}
	for _, f := range e.corpusLines() {
		if len(f) >= 4 && f[0] == "C07" && f[1] == "map" {
			doFile(unhx(f[3]), "corpus")
		}
	}
	if e.onlyCorpus {
		return
	}
	for _, s := range c06Seeds {
		doFile(s, "seed")
	}
	for i := range optSets { // one fixed template under every option set
		nFile = i - 1 + len(optSets)
		doFile(tgenPrelude+"templ T("+tgenSig+") {\n\t<p title={ s }>{ t }</p>\n\tif b {\n\t\t{ fmt.Sprint(n + "+fmt.Sprint(i)+") }\n\t}\n}\n", "options")
	}
	for _, s := range repoTemplates() {
		doFile(s, "repo")
	}
	n := 250
	if tier == "thorough" {
		n = 6000
	}
	for i := 0; i < n; i++ {
		f := newTgen(r, 2+r.intn(3)).file()
		doFile(f, "generated")
		if i%8 == 0 {
			// positions are positions in the bytes of the file: also behind a byte order mark (and a header comment line)
			doFile("\ufeff// header\n"+f, "bom")
		}
	}
}
