package main

import (
	"bytes"
	"fmt"
	"go/format"
	"os"
	"os/exec"
	"path/filepath"
	"regexp"
	"sort"
	"strings"

	"github.com/a-h/templ"
	"github.com/a-h/templ/generator"
	parser "github.com/a-h/templ/parser/v2"
	templruntime "github.com/a-h/templ/runtime"
	"verif/harness/c02oracle"
)

func init() { register("C02", runC02) }

const c02Header = "package main\n\nimport \"fmt\"\n\nvar _ = fmt.Sprint\n\n"

const c02Runner = `package main

import (
	"bufio"
	"context"
	"encoding/hex"
	"fmt"
	"os"
	"strings"

	"github.com/a-h/templ"
)

func unhex(s string) string {
	if s == "-" {
		return ""
	}
	b, _ := hex.DecodeString(s)
	return string(b)
}

func hexs(s string) string {
	if s == "" {
		return "-"
	}
	return hex.EncodeToString([]byte(s))
}

func main() {
	f, err := os.Open(os.Args[1])
	if err != nil {
		panic(err)
	}
	sc := bufio.NewScanner(f)
	sc.Buffer(make([]byte, 1<<20), 1<<26)
	out := bufio.NewWriter(os.Stdout)
	defer out.Flush()
	for sc.Scan() {
		parts := strings.Split(sc.Text(), "\t")
		var idx int
		fmt.Sscan(parts[0], &idx)
		V = map[string]string{}
		if len(parts) > 1 && parts[1] != "" {
			for _, kv := range strings.Split(parts[1], "&") {
				p := strings.SplitN(kv, "=", 2)
				V[unhex(p[0])] = unhex(p[1])
			}
		}
		Trace = nil
		ctx := templ.InitializeContext(context.Background())
		if v, ok := V["children"]; ok {
			ctx = templ.WithChildren(ctx, templ.Raw(v))
		}
		var sb strings.Builder
		msg := ""
		func() {
			defer func() {
				if r := recover(); r != nil {
					msg = fmt.Sprint("panic: ", r)
				}
			}()
			if err := all[idx]().Render(ctx, &sb); err != nil {
				msg = "error: " + err.Error()
			}
		}()
		tr := make([]string, len(Trace))
		for i, k := range Trace {
			tr[i] = hexs(k)
		}
		t := "~"
		if len(tr) > 0 {
			t = strings.Join(tr, ".")
		}
		fmt.Fprintf(out, "%d\t%s\t%s\t%s\n", idx, hexs(sb.String()), hexs(msg), t)
	}
}
`

type c02Tmpl struct {
	name string
	src  string // the `templ Tn() {…}` text
	body []parser.Node
	ast  string
}

// c02Accept runs parse + generate + gofmt on one template wrapped in a file.
func c02Accept(name, src string) (*c02Tmpl, bool) {
	tf, err := parser.ParseString(c02Header + src)
	if err != nil {
		return nil, false
	}
	var b bytes.Buffer
	if _, err := generator.Generate(tf, &b, generator.WithFileName("t.templ")); err != nil {
		return nil, false
	}
	if _, err := format.Source(b.Bytes()); err != nil {
		return nil, false
	}
	for _, n := range tf.Nodes {
		if ht, ok := n.(parser.HTMLTemplate); ok {
			a, err := astBody(ht.Children)
			if err != nil {
				return nil, false
			}
			return &c02Tmpl{name: name, src: src, body: ht.Children, ast: a}, true
		}
	}
	return nil, false
}

var c02Values = []string{"27\"", "a&", "<", "ab'", "naïve>", "1", "", "0", "a", "b", "d", "x y", "a|b", "p|q|r", "x<y", `he said "hi"`, "it's & co", "</script>", "color:red", "/path?q=1&r=2",
	"data-a=1,hidden", "title=t<,off=!", "é日本", "1", "1", "a", "<i>|</i>", "pre|mid|post", "only", "${x}`", "javascript:alert(1)", "width:1px;color:blue",
	"sel=&!,rows=3", "chk=&,x=&!,t=*a<b,n=*", "lt;", "&amp;", "#34;", "\"><img src=x onerror=alert(1)>", "' onmouseover='x", "</p><p>", "amp", "a\x00b"}

func c02ArgSet(r *rng) map[string]string {
	v := map[string]string{}
	for i := 0; i < 12; i++ {
		k := fmt.Sprintf("k%d", i)
		v[k] = r.pick(c02Values)
		if r.chance(1, 40) {
			v[k] = strings.Repeat("Lg", 2100) // larger than the runtime buffer
		}
		if r.chance(1, 25) {
			v[k+"!"] = "1"
		}
	}
	if r.chance(2, 3) {
		v["children"] = r.pick([]string{"<u>kids</u>", "", "K"})
	}
	return v
}

var c02CommentRe = regexp.MustCompile(`(?s)//[^\n]*|/\*.*?\*/`)
var c02CallRe = regexp.MustCompile(`^(S|SE|B|IT|N|U|A|C|H|CL|ST|J|G)\("([a-z0-9]+)"\)$`)

// c02Strip removes comments, surrounding blanks and one level of parentheses.
func c02Strip(e string) string {
	e = strings.TrimSpace(c02CommentRe.ReplaceAllString(e, ""))
	for strings.HasPrefix(e, "(") && strings.HasSuffix(e, ")") {
		e = strings.TrimSpace(e[1 : len(e)-1])
	}
	return e
}

type c02Val struct {
	keys []string
	enc  string
}

func hexJoin(xs []string, sep, empty string) string {
	if len(xs) == 0 {
		return empty
	}
	ys := make([]string, len(xs))
	for i, x := range xs {
		ys[i] = hx(x)
	}
	return strings.Join(ys, sep)
}

func b01(b bool) string {
	if b {
		return "1"
	}
	return "0"
}

// c02StrValue evaluates the string-expression vocabulary: S("k"), SE("k"), literals, a + b.
func c02StrValue(e string, v map[string]string) (val string, fails bool, keys []string, ok bool) {
	e = c02Strip(e)
	if parts := strings.Split(e, " + "); len(parts) == 2 {
		a, fa, ka, oka := c02StrValue(parts[0], v)
		b, fb, kb, okb := c02StrValue(parts[1], v)
		return a + b, fa || fb, append(ka, kb...), oka && okb
	}
	if m := c02CallRe.FindStringSubmatch(e); m != nil {
		switch m[1] {
		case "S", "CL", "ST", "J":
			return v[m[2]], false, []string{m[2]}, true
		case "SE":
			return v[m[2]], v[m[2]+"!"] != "", []string{m[2]}, true
		}
		return "", false, nil, false
	}
	if len(e) >= 2 && (e[0] == '"' || e[0] == '`') {
		var s string
		if _, err := fmt.Sscanf(e, "%q", &s); err == nil {
			return s, false, nil, true
		}
	}
	return "", false, nil, false
}

// c02BoolValue evaluates B("k"), !B("k"), a && b, a || b (short-circuit: the second mark only when evaluated), true, false.
func c02BoolValue(e string, v map[string]string) (val bool, keys []string, ok bool) {
	e = c02Strip(e)
	if parts := strings.Split(e, " && "); len(parts) == 2 {
		a, ka, oka := c02BoolValue(parts[0], v)
		if !a {
			return false, ka, oka
		}
		b, kb, okb := c02BoolValue(parts[1], v)
		return b, append(ka, kb...), oka && okb
	}
	if parts := strings.Split(e, " || "); len(parts) == 2 {
		a, ka, oka := c02BoolValue(parts[0], v)
		if a {
			return true, ka, oka
		}
		b, kb, okb := c02BoolValue(parts[1], v)
		return b, append(ka, kb...), oka && okb
	}
	if strings.HasPrefix(e, "!") {
		a, ka, oka := c02BoolValue(e[1:], v)
		return !a, ka, oka
	}
	if e == "true" || e == "false" {
		return e == "true", nil, true
	}
	if m := c02CallRe.FindStringSubmatch(e); m != nil && m[1] == "B" {
		return v[m[2]] == "1", []string{m[2]}, true
	}
	return false, nil, false
}

var c02LitRe = regexp.MustCompile(`"((?:[^"\\]|\\.)*)"`)

// c02Env computes, for every expression text of the template, what it evaluates to under the value table `v`
// (with the real runtime functions where the value is a runtime result), in the wire format of AstParse.env.
func c02Env(t *c02Tmpl, v map[string]string) (string, bool) {
	entries := map[string]string{}
	var loopTexts []string // every spelling of a loop variable used in this template
	exprs := astExpressions(t.body)
	for _, ex := range exprs {
		s := c02Strip(ex.text)
		if s == "item" || s == "fmt.Sprint(i)" {
			loopTexts = append(loopTexts, ex.text)
		}
	}
	ok := true
	put := func(text string, keys []string, val string) {
		entries[text] = hx(text) + ":" + hexJoin(keys, ".", "~") + ":" + val
	}
	for _, ex := range exprs {
		s := c02Strip(ex.text)
		if s == "item" || s == "fmt.Sprint(i)" {
			continue // bound per iteration
		}
		if strings.TrimSpace(ex.text) == "" {
			continue
		}
		m := c02CallRe.FindStringSubmatch(s)
		switch ex.role {
		case "str":
			val, fails, keys, good := c02StrValue(ex.text, v)
			if !good {
				ok = false
				continue
			}
			put(ex.text, keys, "S/"+hx(val)+"/"+b01(fails))
		case "bool":
			val, keys, good := c02BoolValue(ex.text, v)
			if !good {
				ok = false
				continue
			}
			put(ex.text, keys, "B/"+b01(val))
		case "for":
			switch {
			case strings.Contains(s, "range IT("):
				mm := regexp.MustCompile(`IT\("([a-z0-9]+)"\)`).FindStringSubmatch(s)
				var items []string
				if v[mm[1]] != "" {
					items = strings.Split(v[mm[1]], "|")
				}
				its := make([]string, len(items))
				for i, it := range items {
					var bs []string
					for _, lt := range loopTexts {
						if c02Strip(lt) == "item" && strings.Contains(s, "item") {
							bs = append(bs, hx(lt)+"="+hx(it))
						}
						if c02Strip(lt) == "fmt.Sprint(i)" && strings.HasPrefix(s, "i,") {
							bs = append(bs, hx(lt)+"="+hx(fmt.Sprint(i)))
						}
					}
					sort.Strings(bs)
					its[i] = "~"
					if len(bs) > 0 {
						its[i] = strings.Join(dedup(bs), "&")
					}
				}
				put(ex.text, []string{mm[1]}, fmt.Sprintf("I/%d/%s", len(items), strings.Join(its, "+")))
			case s == "i := 0; i < 2; i++":
				var its []string
				for i := 0; i < 2; i++ {
					var bs []string
					for _, lt := range loopTexts {
						if c02Strip(lt) == "fmt.Sprint(i)" {
							bs = append(bs, hx(lt)+"="+hx(fmt.Sprint(i)))
						}
					}
					sort.Strings(bs)
					if len(bs) == 0 {
						its = append(its, "~")
					} else {
						its = append(its, strings.Join(dedup(bs), "&"))
					}
				}
				put(ex.text, nil, "I/2/"+strings.Join(its, "+"))
			case s == "range 2":
				put(ex.text, nil, "I/2/~+~")
			default:
				ok = false
			}
		case "switch":
			mm := regexp.MustCompile(`^S\("([a-z0-9]+)"\)$`).FindStringSubmatch(s)
			if mm == nil {
				ok = false
				continue
			}
			put(ex.text, []string{mm[1]}, "S/"+hx(v[mm[1]])+"/0")
			for _, c := range strings.Split(ex.el, "\x00") {
				if ex.el == "" {
					break
				}
				if strings.HasPrefix(strings.TrimSpace(c), "default") {
					put(c, nil, "D")
					continue
				}
				var lits []string
				for _, lm := range c02LitRe.FindAllStringSubmatch(c, -1) {
					lits = append(lits, lm[1])
				}
				put(c, nil, "M/"+hexJoin(lits, "+", "-"))
			}
		case "call":
			if m == nil || m[1] != "C" {
				ok = false
				continue
			}
			put(ex.text, []string{m[2]}, "C/"+b01(v[m[2]+"!"] != "")+"/"+hexJoin(strings.Split(v[m[2]], "|"), "+", "-"))
		case "spread":
			mm := regexp.MustCompile(`^A\("([a-z0-9]+)"\)$`).FindStringSubmatch(s)
			if mm == nil {
				ok = false
				continue
			}
			// what the map renders is computed by the Lean model of RenderAttributes from the map's description
			_, desc := c02oracle.AttrsDesc(v[mm[1]])
			dk := make([]string, 0, len(desc))
			for k := range desc {
				dk = append(dk, k)
			}
			sort.Sort(sort.Reverse(sort.StringSlice(dk)))
			items := make([]string, len(dk))
			for i, k := range dk {
				items[i] = hx(k) + "~" + desc[k][0]
				if desc[k][0] != "spn" {
					if desc[k][0] == "s" || desc[k][0] == "sp" {
						items[i] += "~" + hx(desc[k][1])
					} else {
						items[i] += "~" + desc[k][1]
					}
				}
			}
			enc := "-"
			if len(items) > 0 {
				enc = strings.Join(items, "+")
			}
			put(ex.text, []string{mm[1]}, "RA/"+enc)
		case "js":
			if m == nil || m[1] != "J" {
				ok = false
				continue
			}
			o, err1 := templruntime.ScriptContentOutsideStringLiteral(v[m[2]])
			i, err2 := templruntime.ScriptContentInsideStringLiteral(v[m[2]])
			put(ex.text, []string{m[2]}, "J/"+hx(o)+"/"+hx(i)+"/"+b01(err1 != nil || err2 != nil))
		case "gocode":
			if s == "_ = item" || s == "_ = i" {
				put(ex.text, nil, "U")
				continue
			}
			mm := regexp.MustCompile(`^_ = G\("([a-z0-9]+)"\)$`).FindStringSubmatch(s)
			if mm == nil {
				ok = false
				continue
			}
			put(ex.text, []string{mm[1]}, "U")
		case "attr":
			switch {
			case ex.name == "class":
				// `CL("k")` or `"st", CL("k")`
				var items []any
				var keys []string
				good := true
				for _, part := range strings.Split(s, ", ") {
					val, _, ks, g := c02StrValue(part, v)
					good = good && g
					items = append(items, val)
					keys = append(keys, ks...)
				}
				if !good {
					ok = false
					continue
				}
				put(ex.text, keys, "L/"+hx(templ.CSSClasses(items).String()))
			case m != nil && m[1] == "H":
				sc := c02oracle.ScriptOf(v[m[2]])
				put(ex.text, []string{m[2]}, "X/"+hx(sc.Name)+"/"+hx(sc.Function)+"/"+hx(sc.Call))
			case m != nil && m[1] == "U":
				put(ex.text, []string{m[2]}, "S/"+hx(v[m[2]])+"/0")
			case ex.name == "style":
				if m == nil || m[1] != "ST" {
					ok = false
					continue
				}
				val, err := templruntime.SanitizeStyleAttributeValues(v[m[2]])
				put(ex.text, []string{m[2]}, "S/"+hx(val)+"/"+b01(err != nil))
			default:
				val, fails, keys, good := c02StrValue(ex.text, v)
				if !good {
					ok = false
					continue
				}
				put(ex.text, keys, "S/"+hx(val)+"/"+b01(fails))
			}
		}
	}
	kids, has := v["children"]
	_ = has
	entries["children..."] = hx("children...") + ":~:R/" + hx(kids) + "/0"
	keys := make([]string, 0, len(entries))
	for k := range entries {
		keys = append(keys, k)
	}
	sort.Strings(keys)
	parts := make([]string, len(keys))
	for i, k := range keys {
		parts[i] = entries[k]
	}
	return strings.Join(parts, ";"), ok
}

func dedup(xs []string) []string {
	var out []string
	for i, x := range xs {
		if i == 0 || x != xs[i-1] {
			out = append(out, x)
		}
	}
	return out
}

var errC02Generate = fmt.Errorf("templ generate rejected the batch")

func c02Build(dir string, tmpls []*c02Tmpl, root string) (string, error) {
	os.RemoveAll(dir)
	if err := os.MkdirAll(dir, 0o755); err != nil {
		return "", err
	}
	gomod := "module c02batch\n\ngo 1.23\n\nrequire github.com/a-h/templ v0.0.0\n\nreplace github.com/a-h/templ => " + repoDir + "\n"
	os.WriteFile(filepath.Join(dir, "go.mod"), []byte(gomod), 0o644)
	sum, _ := os.ReadFile(filepath.Join(repoDir, "go.sum"))
	os.WriteFile(filepath.Join(dir, "go.sum"), sum, 0o644)
	orc, err := os.ReadFile(filepath.Join(root, "harness", "c02oracle", "oracle.go"))
	if err != nil {
		return "", err
	}
	os.WriteFile(filepath.Join(dir, "oracle.go"), []byte(strings.Replace(string(orc), "package c02oracle", "package main", 1)), 0o644)
	var sb strings.Builder
	sb.WriteString(c02Header)
	all := "package main\n\nimport \"github.com/a-h/templ\"\n\nvar all = []func() templ.Component{"
	for _, t := range tmpls {
		sb.WriteString(t.src + "\n")
		all += t.name + ", "
	}
	all += "}\n"
	os.WriteFile(filepath.Join(dir, "t.templ"), []byte(sb.String()), 0o644)
	os.WriteFile(filepath.Join(dir, "all.go"), []byte(all), 0o644)
	os.WriteFile(filepath.Join(dir, "runner.go"), []byte(c02Runner), 0o644)
	cli := filepath.Join(root, ".work", "templ")
	if out, err := exec.Command(cli, "generate", "-path", dir, "-include-version=false", "-log-level", "error").CombinedOutput(); err != nil {
		return string(out), errC02Generate
	}
	cmd := exec.Command("go", "build", "-o", "batch", ".")
	cmd.Dir = dir
	cmd.Env = append(os.Environ(), "GOFLAGS=-mod=mod", "GOPROXY=off", "GOSUMDB=off", "GOTOOLCHAIN=local")
	if out, err := cmd.CombinedOutput(); err != nil {
		return string(out), fmt.Errorf("go build: %v", err)
	}
	return "", nil
}

// c02Statics: markup without any Go expression, and the document it denotes written out by hand (the attribute values
// a browser reads in the source are the ones it must read in the output). The expectation travels inside the template
// as a Go comment, which rendering omits.
var c02Statics = [][]string{
	{`<p title=R&amp;D >t</p>`, `<p title="R&amp;D">t</p>`},
	{`<input value=&lt;none&gt; disabled/>`, `<input value="&lt;none&gt;" disabled>`},
	{`<a data-owner=&copy;2024 href="/x?a=1&amp;b=2">l</a>`, `<a data-owner="©2024" href="/x?a=1&amp;b=2">l</a>`},
	{`<p data-k='a&#39;b' lang="q&quot;r">q</p>`, `<p data-k="a&#39;b" lang="q&#34;r">q</p>`},
	{`<p if true { title=a&amp;b } else { title=c&amp;d }>m</p>`, `<p title="a&amp;b">m</p>`},
	{`<ul><li>1</li><li class="x y">2 &amp; 3</li></ul><br/><hr>`, `<ul><li>1</li><li class="x y">2 &amp; 3</li></ul><br><hr>`},
	{`<div hidden data-flag>a <b>b</b> c</div>`, `<div hidden data-flag>a <b>b</b> c</div>`},
	// a clause without a body is the clause selected for its values, and renders nothing
	{"<li>\n\t\tswitch \"hidden\" {\n\t\t\tcase \"hidden\":\n\t\t\tcase \"shown\":\n\t\t\t\t<i>shown</i>\n\t\t\tdefault:\n\t\t\t\t<b>other</b>\n\t\t}\n\t</li>", "<li></li>"},
	{"<span>\n\t\tswitch {\n\t\t\tcase 0 == 0:\n\t\t\tcase 0 < 10:\n\t\t\t\tfew\n\t\t\tdefault:\n\t\t\t\tmany\n\t\t}\n\t</span>", "<span></span>"},
	// the first use of a css class / a script is inside the block of a call, the second after the call: one definition
	{"@wrap(\"w\") {\n\t\t<p class={ grid() }>in</p>\n\t}\n\t<p class={ grid() }>out</p>",
		"<section title=\"w\"><style type=\"text/css\">.grid_cbb91d13{grid-template-areas:\"head  head\" \"nav   main\";content:\"\\201C  \\201D\";font-family:\"A  B\",\tserif;}</style><p class=\"grid_cbb91d13\">in</p></section><p class=\"grid_cbb91d13\">out</p>"},
	{"@wrap(\"w\") {\n\t\t<button onclick={ hello(\"a\") }>in</button>\n\t}\n\t<button onclick={ hello(\"a\") }>out</button>",
		"<section title=\"w\"><script>function __templ_hello_e826(name){console.log(name);\n}</script><button onclick=\"__templ_hello_e826(&#34;a&#34;)\">in</button></section><button onclick=\"__templ_hello_e826(&#34;a&#34;)\">out</button>"},
	{`<a href=/path >x</a>`, `<a href="/path">x</a>`, "unquoted-leading-slash"},
	{`<a href=a/b data-x=1 >y</a>`, `<a href="a/b" data-x="1">y</a>`, "unquoted-inner-slash"},
}

func c02Static(e *emitter, r *rng, scratch, root string) {
	if e.shard != 0 {
		return
	}
	var tmpls []*c02Tmpl
	for i, st := range c02Statics {
		name := fmt.Sprintf("T%d", i)
		key := ""
		if len(st) > 2 {
			key = "\n\t// KEY:" + st[2]
		}
		src := "templ " + name + "() {\n\t// EXPECT:" + hx(st[1]) + key + "\n\t" + st[0] + "\n}\n"
		if t, ok := c02Accept(name, src); ok {
			tmpls = append(tmpls, t)
		} else {
			e.count("static-template-rejected")
		}
	}
	if len(tmpls) > 0 {
		// what the fixtures with calls, classes and scripts refer to
		tmpls[len(tmpls)-1].src += "\ncss grid() {\n\tgrid-template-areas: \"head  head\" \"nav   main\";\n\tcontent: \"\\201C  \\201D\";\n\tfont-family: \"A  B\",\tserif;\n}\n\nscript hello(name string) {\n\tconsole.log(name);\n}\n\ntempl wrap(title string) {\n\t<section title={ title }>\n\t\t{ children... }\n\t</section>\n}\n"
	}
	c02RunBatchOp(e, r, scratch, root, "static", tmpls, 1, "static")
}

func runC02(e *emitter, tier string, seed uint64) {
	r := &rng{s: seed*7919 + uint64(e.shard)}
	e.selfSharded = true
	root := os.Getenv("VERIF_ROOT")
	if root == "" {
		root = "/verif"
	}
	scratch := workDir
	if scratch == "" {
		scratch = filepath.Join(root, ".work", "c02tmp")
	}
	batches, per, nargs := 1, 100, 4
	if tier == "thorough" {
		batches, per, nargs = 3, 400, 6
	}
	c02Static(e, r, scratch, root)
	for b := 0; b < batches; b++ {
		var tmpls []*c02Tmpl
		for len(tmpls) < per {
			g := newTgen(r, 2+r.intn(3))
			g.oracle = true
			g.inWrap = true
			name := fmt.Sprintf("T%d", len(tmpls))
			src := "templ " + name + "() {\n" + g.body(1, 1+r.intn(4)) + "\n}\n"
			t, ok := c02Accept(name, src)
			if ok {
				// every Go expression the REAL parser found must be one of the oracle forms (a glued spelling such as
				// `worldif B("k") {` + newline + `日本` + newline + `}` parses as text followed by the string expression `日本`: valid templ, meaningless Go)
				if _, inVocab := c02Env(t, map[string]string{}); !inVocab {
					e.count("template-outside-oracle-vocabulary")
					ok = false
				}
			}
			if ok {
				tmpls = append(tmpls, t)
				for k, n := range g.counts {
					e.counters["node:"+k] += n
				}
			} else {
				e.count("rejected-by-parse-generate-gofmt")
			}
		}
		c02RunBatch(e, r, scratch, root, fmt.Sprintf("%d", b), tmpls, nargs)
	}
}

// c02RunBatch builds and runs one batch. A batch that `templ generate` rejects as a whole although each template was
// accepted alone is outside the property's quantifier ("every template that templ generate accepts"): it is split
// until the pieces are accepted (or a single template is dropped).
func c02RunBatch(e *emitter, r *rng, scratch, root, tag string, tmpls []*c02Tmpl, nargs int) {
	c02RunBatchOp(e, r, scratch, root, tag, tmpls, nargs, "render")
}

// c02RunBatchOp: the same, with the name of the per-render operation (C01's composition check reuses the pipeline).
func c02RunBatchOp(e *emitter, r *rng, scratch, root, tag string, tmpls []*c02Tmpl, nargs int, op string) {
	if len(tmpls) == 0 {
		return
	}
	for i, t := range tmpls { // names and the `all` table follow the position in THIS batch
		if want := fmt.Sprintf("T%d", i); t.name != want {
			t.src = strings.Replace(t.src, "templ "+t.name+"()", "templ "+want+"()", 1)
			t.name = want
		}
	}
	b := tag
	{
		dir := filepath.Join(scratch, fmt.Sprintf("c02-s%d-b%s", e.shard, b))
		if out, err := c02Build(dir, tmpls, root); err == errC02Generate {
			os.RemoveAll(dir)
			e.count("batch-rejected-by-templ-generate")
			if len(tmpls) == 1 {
				e.count("template-rejected-in-batch-context")
				return
			}
			c02RunBatchOp(e, r, scratch, root, tag+"a", tmpls[:len(tmpls)/2], nargs, op)
			c02RunBatchOp(e, r, scratch, root, tag+"b", append([]*c02Tmpl{}, tmpls[len(tmpls)/2:]...), nargs, op)
			return
		} else if err != nil {
			var all strings.Builder
			for _, t := range tmpls {
				all.WriteString(t.src + "\n")
			}
			e.emit(fmt.Sprintf("build %s", b), "build", hx(err.Error()+"\n"+out), hx(all.String()))
			return
		}
		e.emit(fmt.Sprintf("build %s", b), "build", "-", "-")
		// cases
		type cs struct {
			t *c02Tmpl
			v map[string]string
		}
		var cases []cs
		var lines []string
		for i, t := range tmpls {
			for a := 0; a < nargs; a++ {
				v := c02ArgSet(r)
				cases = append(cases, cs{t, v})
				keys := make([]string, 0, len(v))
				for k := range v {
					keys = append(keys, k)
				}
				sort.Strings(keys)
				kv := make([]string, len(keys))
				for j, k := range keys {
					kv[j] = hx(k) + "=" + hx(v[k])
				}
				lines = append(lines, fmt.Sprintf("%d\t%s", i, strings.Join(kv, "&")))
			}
		}
		os.WriteFile(filepath.Join(dir, "cases.txt"), []byte(strings.Join(lines, "\n")+"\n"), 0o644)
		out, err := exec.Command(filepath.Join(dir, "batch"), filepath.Join(dir, "cases.txt")).Output()
		results := strings.Split(strings.TrimRight(string(out), "\n"), "\n")
		if err != nil || len(results) != len(cases) {
			e.emit(fmt.Sprintf("run %s", b), "build", hx(fmt.Sprintf("batch run failed: %v (%d of %d results)", err, len(results), len(cases))), "-")
			return
		}
		for i, c := range cases {
			f := strings.Split(results[i], "\t")
			env, ok := c02Env(c.t, c.v)
			if !ok {
				e.count("value-table-incomplete")
			}
			e.emit(fmt.Sprintf("%s %s %d", op, b, i), op, c.t.ast, env, f[1], f[2], f[3], hx(c.t.src))
		}
		os.RemoveAll(dir)
	}
}
