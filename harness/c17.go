package main

import (
	"fmt"
	"io"
	"log/slog"
	"strings"

	"github.com/a-h/templ/cmd/templ/lspcmd/proxy"
	lsp "github.com/a-h/templ/lsp/protocol"
)

func init() { register("C17", runC17) }

var quietLog = slog.New(slog.NewTextHandler(io.Discard, nil))

// c17Apply runs the real Document.Apply on a fresh document.
func c17Apply(doc string, r *[4]uint32, text string) string {
	d := proxy.NewDocument(quietLog, doc)
	var rp *lsp.Range
	if r != nil {
		rp = &lsp.Range{Start: lsp.Position{Line: r[0], Character: r[1]}, End: lsp.Position{Line: r[2], Character: r[3]}}
	}
	out := "PANIC"
	if p, _ := safely(func() { d.Apply(rp, text) }); !p {
		out = hx(d.String())
	}
	return out
}

func c17Emit(e *emitter, doc string, r *[4]uint32, text string) {
	rs := "-"
	if r != nil {
		rs = fmt.Sprintf("%d,%d,%d,%d", r[0], r[1], r[2], r[3])
	}
	key := hx(doc) + " " + rs + " " + hx(text)
	e.emit(key, "apply", hx(doc), rs, hx(text), c17Apply(doc, r, text))
}

func runC17(e *emitter, tier string, seed uint64) {
	// corpus first
	for _, f := range e.corpusLines() {
		if len(f) >= 5 && f[0] == "C17" && f[1] == "apply" {
			var r *[4]uint32
			if f[3] != "-" {
				var a [4]uint32
				fmt.Sscanf(f[3], "%d,%d,%d,%d", &a[0], &a[1], &a[2], &a[3])
				r = &a
			}
			c17Emit(e, unhx(f[2]), r, unhx(f[4]))
		}
	}
	if e.onlyCorpus {
		return
	}
	maxDoc := 5
	if tier == "thorough" {
		maxDoc = 7
	}
	texts := []string{"", "x", "\n", "x\ny", "\n\n", "xy\n"}
	// exhaustive: every document over {a, LF} up to maxDoc bytes x every range whose coordinates go one
	// past the last line / longest line (so clamping is exercised) x replacement texts; start <= stop.
	enumerate([]string{"a", "\n"}, maxDoc, func(doc string) {
		lines := strings.Split(doc, "\n")
		maxCol := 0
		for _, l := range lines {
			if len(l) > maxCol {
				maxCol = len(l)
			}
		}
		nl, nc := uint32(len(lines)+1), uint32(maxCol+1)
		for sl := uint32(0); sl <= nl; sl++ {
			for sc := uint32(0); sc <= nc; sc++ {
				for el := sl; el <= nl; el++ {
					for ec := uint32(0); ec <= nc; ec++ {
						if el == sl && ec < sc {
							continue
						}
						for _, t := range texts {
							c17Emit(e, doc, &[4]uint32{sl, sc, el, ec}, t)
						}
					}
				}
			}
		}
		c17Emit(e, doc, nil, "x\ny")
	})
	// random long documents and edit sequences (each step is one case: the copy before the step is the input)
	r := &rng{s: seed}
	nseq := 300
	if tier == "thorough" {
		nseq = 6000
	}
	alphabet := []string{"a", "b", " ", "\n", "\n", "{", "é", "\t", "世"}
	for i := 0; i < nseq; i++ {
		var sb strings.Builder
		n := r.intn(200)
		for j := 0; j < n; j++ {
			sb.WriteString(r.pick(alphabet))
		}
		doc := sb.String()
		d := proxy.NewDocument(quietLog, doc)
		steps := 1 + r.intn(12)
		for k := 0; k < steps; k++ {
			cur := d.String()
			lines := strings.Split(cur, "\n")
			pos := func() (uint32, uint32) {
				l := r.intn(len(lines) + 1)
				c := 0
				if l < len(lines) {
					c = r.intn(len(lines[l]) + 2)
				} else {
					c = r.intn(5)
				}
				return uint32(l), uint32(c)
			}
			sl, sc := pos()
			el, ec := pos()
			if el < sl || (el == sl && ec < sc) {
				sl, sc, el, ec = el, ec, sl, sc
			}
			if r.chance(1, 6) {
				sl, sc = 0, 0
			}
			if r.chance(1, 8) {
				el, ec = uint32(len(lines)-1), uint32(len(lines[len(lines)-1]))
			}
			var tb strings.Builder
			tn := r.intn(6)
			if r.chance(1, 4) {
				tn = 0
			}
			for j := 0; j < tn; j++ {
				tb.WriteString(r.pick(alphabet))
			}
			var rp *[4]uint32
			if !r.chance(1, 15) {
				rp = &[4]uint32{sl, sc, el, ec}
			}
			c17Emit(e, cur, rp, tb.String())
			// advance the real document (history): apply the same change to the long-lived copy
			var lr *lsp.Range
			if rp != nil {
				lr = &lsp.Range{Start: lsp.Position{Line: sl, Character: sc}, End: lsp.Position{Line: el, Character: ec}}
			}
			if p, _ := safely(func() { d.Apply(lr, tb.String()) }); p {
				break
			}
		}
	}
}
