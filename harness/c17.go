package main

import (
	"path/filepath"
	"os"
	"context"
	"fmt"
	"io"
	"log/slog"
	"strings"

	"github.com/a-h/templ/cmd/templ/lspcmd/proxy"
	lsp "github.com/a-h/templ/lsp/protocol"
)

func init() { register("C17", runC17) }

var quietLog = slog.New(slog.NewTextHandler(io.Discard, nil))

// c17Apply runs the real Document.Apply on a fresh document.
func c17Apply(doc string, r *[4]uint32, text string) string {
	d := proxy.NewDocument(quietLog, doc)
	var rp *lsp.Range
	if r != nil {
		rp = &lsp.Range{Start: lsp.Position{Line: r[0], Character: r[1]}, End: lsp.Position{Line: r[2], Character: r[3]}}
	}
	out := "PANIC"
	if p, _ := safely(func() { d.Apply(rp, text) }); !p {
		out = hx(d.String())
	}
	return out
}

func c17Emit(e *emitter, doc string, r *[4]uint32, text string) {
	c17EmitWith(e, doc, r, text, c17Apply(doc, r, text), "")
}

// c17EmitWith emits a step whose implementation output was produced by a LONG-LIVED document (history): the
// copy before the step is the input, the copy after it the output. hist distinguishes the same step reached
// through different histories.
func c17EmitWith(e *emitter, doc string, r *[4]uint32, text string, out string, hist string) {
	rs := "-"
	if r != nil {
		rs = fmt.Sprintf("%d,%d,%d,%d", r[0], r[1], r[2], r[3])
	}
	key := hx(doc) + " " + rs + " " + hx(text) + " " + hist
	e.emit(key, "apply", hx(doc), rs, hx(text), out)
}

func lspRange(r *[4]uint32) *lsp.Range {
	if r == nil {
		return nil
	}
	return &lsp.Range{Start: lsp.Position{Line: r[0], Character: r[1]}, End: lsp.Position{Line: r[2], Character: r[3]}}
}

type c17Change struct {
	r    *[4]uint32
	text string
}

func c17EncChanges(cs []c17Change) string {
	parts := []string{}
	for _, c := range cs {
		rs := "-"
		if c.r != nil {
			rs = fmt.Sprintf("%d,%d,%d,%d", c.r[0], c.r[1], c.r[2], c.r[3])
		}
		parts = append(parts, rs+"|"+hx(c.text))
	}
	if len(parts) == 0 {
		return "-"
	}
	return strings.Join(parts, ";")
}

// c17Hist runs a whole history on ONE real document object and emits it as a single case (replayable as such).
func c17Hist(e *emitter, doc0 string, cs []c17Change) {
	d := proxy.NewDocument(quietLog, doc0)
	out := "PANIC"
	p, _ := safely(func() {
		for _, c := range cs {
			d.Apply(lspRange(c.r), c.text)
		}
	})
	if !p {
		out = hx(d.String())
	}
	enc := c17EncChanges(cs)
	e.emit("hist "+hx(doc0)+" "+enc, "hist", hx(doc0), enc, out)
}

// c17Step applies one change to a long-lived document and emits it as a case.
func c17Step(e *emitter, d *proxy.Document, r *[4]uint32, text string, hist string) bool {
	before := d.String()
	out := "PANIC"
	p, _ := safely(func() { d.Apply(lspRange(r), text) })
	if !p {
		out = hx(d.String())
	}
	c17EmitWith(e, before, r, text, out, hist)
	return !p
}

func runC17(e *emitter, tier string, seed uint64) {
	// corpus first
	for _, f := range e.corpusLines() {
		if len(f) >= 4 && f[0] == "C17" && f[1] == "hist" {
			var cs []c17Change
			if f[3] != "-" {
				for _, part := range strings.Split(f[3], ";") {
					rt := strings.SplitN(part, "|", 2)
					var r *[4]uint32
					if rt[0] != "-" {
						var a [4]uint32
						fmt.Sscanf(rt[0], "%d,%d,%d,%d", &a[0], &a[1], &a[2], &a[3])
						r = &a
					}
					cs = append(cs, c17Change{r, unhx(rt[1])})
				}
			}
			c17Hist(e, unhx(f[2]), cs)
		}
		if len(f) >= 5 && f[0] == "C17" && f[1] == "apply" {
			var r *[4]uint32
			if f[3] != "-" {
				var a [4]uint32
				fmt.Sscanf(f[3], "%d,%d,%d,%d", &a[0], &a[1], &a[2], &a[3])
				r = &a
			}
			c17Emit(e, unhx(f[2]), r, unhx(f[4]))
		}
	}
	if e.onlyCorpus {
		return
	}
	c17Sessions(e, seed)
	maxDoc := 5
	if tier == "thorough" {
		maxDoc = 7
	}
	texts := []string{"", "x", "\n", "x\ny", "\n\n", "xy\n"}
	// exhaustive: every document over {a, LF} up to maxDoc bytes x every range whose coordinates go one
	// past the last line / longest line (so clamping is exercised) x replacement texts; start <= stop.
	enumerate([]string{"a", "\n"}, maxDoc, func(doc string) {
		lines := strings.Split(doc, "\n")
		maxCol := 0
		for _, l := range lines {
			if len(l) > maxCol {
				maxCol = len(l)
			}
		}
		nl, nc := uint32(len(lines)+1), uint32(maxCol+1)
		for sl := uint32(0); sl <= nl; sl++ {
			for sc := uint32(0); sc <= nc; sc++ {
				for el := sl; el <= nl; el++ {
					for ec := uint32(0); ec <= nc; ec++ {
						if el == sl && ec < sc {
							continue
						}
						for _, t := range texts {
							c17Emit(e, doc, &[4]uint32{sl, sc, el, ec}, t)
						}
					}
				}
			}
		}
		c17Emit(e, doc, nil, "x\ny")
	})
	// two-step histories on ONE document object: a ranged whole-document replace (or a nil-range replace, or an
	// ordinary edit) followed by every small edit of the new document
	firsts := []string{"hello world", "x\ny\nz", "", "\n", "long line here\nb"}
	for _, doc := range []string{"a\nb", "ab", "a\nbcd\ne", "\n"} {
		lines := strings.Split(doc, "\n")
		whole := &[4]uint32{0, 0, uint32(len(lines) - 1), uint32(len(lines[len(lines)-1]))}
		for _, first := range firsts {
			for _, fr := range []*[4]uint32{whole, nil, {0, 0, 0, 1}, {9, 9, 9, 9}} {
				nl := strings.Split(first, "\n")
				for l := uint32(0); l <= uint32(len(nl)); l++ {
					for c := uint32(0); c <= 12; c += 1 {
						for _, t := range []string{"X", "", "\n"} {
							for _, span := range []uint32{0, 1, 3} {
								c17Hist(e, doc, []c17Change{{fr, first}, {&[4]uint32{l, c, l, c + span}, t}})
							}
						}
					}
				}
			}
		}
	}
	// random long documents and edit sequences (each step is one case: the copy before the step is the input)
	r := &rng{s: seed}
	nseq := 300
	if tier == "thorough" {
		nseq = 6000
	}
	alphabet := []string{"a", "b", " ", "\n", "\n", "{", "é", "\t", "世"}
	for i := 0; i < nseq; i++ {
		var sb strings.Builder
		n := r.intn(200)
		for j := 0; j < n; j++ {
			sb.WriteString(r.pick(alphabet))
		}
		doc := sb.String()
		d := proxy.NewDocument(quietLog, doc)
		var hist []c17Change
		steps := 1 + r.intn(12)
		for k := 0; k < steps; k++ {
			cur := d.String()
			lines := strings.Split(cur, "\n")
			pos := func() (uint32, uint32) {
				l := r.intn(len(lines) + 1)
				c := 0
				if l < len(lines) {
					c = r.intn(len(lines[l]) + 2)
				} else {
					c = r.intn(5)
				}
				return uint32(l), uint32(c)
			}
			sl, sc := pos()
			el, ec := pos()
			if el < sl || (el == sl && ec < sc) {
				sl, sc, el, ec = el, ec, sl, sc
			}
			if r.chance(1, 6) {
				sl, sc = 0, 0
			}
			if r.chance(1, 8) {
				el, ec = uint32(len(lines)-1), uint32(len(lines[len(lines)-1]))
			}
			var tb strings.Builder
			tn := r.intn(6)
			if r.chance(1, 4) {
				tn = 0
			}
			for j := 0; j < tn; j++ {
				tb.WriteString(r.pick(alphabet))
			}
			var rp *[4]uint32
			if !r.chance(1, 15) {
				rp = &[4]uint32{sl, sc, el, ec}
			}
			_ = cur
			// the step runs on the long-lived copy (history): its state before and after is what the driver sees
			hist = append(hist, c17Change{rp, tb.String()})
			if !c17Step(e, d, rp, tb.String(), fmt.Sprintf("seq%d:%d", i, k)) {
				break
			}
		}
		c17Hist(e, doc, hist)
	}
}


// Editor sessions against the language server's notification handlers (Server.DidOpen / DidChange / DidClose) with a stub
// in place of gopls: open, edit (versions count up), close, open AGAIN (versions restart at 1), edit. After every sub-session
// the server's copy (Server.TemplSource) is emitted as a history case.
type c17Target struct{ lsp.Server }

func (t *c17Target) Initialize(context.Context, *lsp.InitializeParams) (*lsp.InitializeResult, error) {
	return &lsp.InitializeResult{ServerInfo: &lsp.ServerInfo{}}, nil
}
func (t *c17Target) Initialized(context.Context, *lsp.InitializedParams) error         { return nil }
func (t *c17Target) DidOpen(context.Context, *lsp.DidOpenTextDocumentParams) error     { return nil }
func (t *c17Target) DidChange(context.Context, *lsp.DidChangeTextDocumentParams) error { return nil }
func (t *c17Target) DidClose(context.Context, *lsp.DidCloseTextDocumentParams) error   { return nil }
func (t *c17Target) DidChangeWatchedFiles(context.Context, *lsp.DidChangeWatchedFilesParams) error {
	return nil
}

type c17Client struct{ lsp.Client }

func (c *c17Client) PublishDiagnostics(context.Context, *lsp.PublishDiagnosticsParams) error { return nil }

func c17Sessions(e *emitter, seed uint64) {
	r := &rng{s: seed ^ 0x5e55}
	base := "package main\n\ntempl hello(name string) {\n\t<div>{ name }</div>\n}\n"
	texts := []string{"X", "ab\ncd", "", "\n", "Hello, ", "<span>", "// c\n"}
	// documents that are open at the same time: distinct files, also when their URIs differ in letter case only
	uriSets := [][]lsp.DocumentURI{
		{"file:///work/hello.templ"},
		{"file:///work/ui/Card.templ", "file:///work/ui/card.templ"},
		{"file:///work/Admin/page.templ", "file:///work/admin/page.templ", "file:///work/admin/Page.templ"},
		{"file:///c%3A/work/a.templ", "file:///C%3A/work/a.templ"},
	}
	type odoc struct {
		uri     lsp.DocumentURI
		doc0    string
		cur     string
		cs      []c17Change
		version int32
		open    bool
	}
	for s := 0; s < 60; s++ {
		// every third session: a server that preloads the workspace at Initialize (the default); the file on disk holds
		// something else than what the editor then opens (changed by git or a formatter, or an unsaved buffer)
		preload := s%3 == 2
		srv := proxy.NewServer(quietLog, &c17Target{}, proxy.NewSourceMapCache(), proxy.NewDiagnosticCache(), !preload)
		ctx := lsp.WithClient(context.Background(), &c17Client{})
		var preloadURIs []lsp.DocumentURI
		if preload {
			dir, err := os.MkdirTemp(workDir, "lspws")
			if err != nil {
				dir, err = os.MkdirTemp("", "lspws")
			}
			if err == nil {
				defer os.RemoveAll(dir)
				os.WriteFile(filepath.Join(dir, "hello.templ"), []byte("package main\n\ntempl onDisk() {\n\t<p>what is on disk</p>\n}\n"), 0o644)
				os.WriteFile(filepath.Join(dir, "other.templ"), []byte("package main\n\ntempl other() {\n\t<i>o</i>\n}\n"), 0o644)
				if _, ierr := srv.Initialize(ctx, &lsp.InitializeParams{WorkspaceFolders: []lsp.WorkspaceFolder{{URI: "file://" + dir, Name: "w"}}}); ierr == nil {
					preloadURIs = []lsp.DocumentURI{lsp.DocumentURI("file://" + dir + "/hello.templ"), lsp.DocumentURI("file://" + dir + "/other.templ")}
				}
			}
		}
		for sub := 0; sub < 1+r.intn(3); sub++ {
			uris := uriSets[0]
			if r.chance(1, 2) {
				uris = uriSets[1+r.intn(len(uriSets)-1)]
			}
			if preloadURIs != nil {
				uris = preloadURIs[:1+r.intn(2)]
			}
			failed := ""
			var docs []*odoc
			for _, u := range uris {
				d := &odoc{uri: u, doc0: base, version: 1, open: true}
				if r.chance(1, 3) {
					d.doc0 = "package p\n\ntempl t() {\n\t<p>" + string(u[len(u)-9:]) + "</p>\n}\n"
				}
				d.cur = d.doc0
				docs = append(docs, d)
				if p, msg := safely(func() {
					if err := srv.DidOpen(ctx, &lsp.DidOpenTextDocumentParams{TextDocument: lsp.TextDocumentItem{URI: u, LanguageID: "templ", Version: 1, Text: d.doc0}}); err != nil {
						failed = "DidOpen: " + err.Error()
					}
				}); p {
					failed = fmt.Sprint("DidOpen panicked: ", msg)
				}
			}
			for k := 1 + r.intn(6); k > 0 && failed == ""; k-- {
				d := docs[r.intn(len(docs))]
				if !d.open {
					continue
				}
				// one notification carries one to three changes, each relative to the text left by the one before it
				var batch []lsp.TextDocumentContentChangeEvent
				for b := 1 + r.intn(3); b > 0; b-- {
					lines := strings.Split(d.cur, "\n")
					l0 := r.intn(len(lines))
					c0 := r.intn(len(lines[l0]) + 1)
					l1 := l0 + r.intn(len(lines)-l0)
					c1 := r.intn(len(lines[l1]) + 1)
					if l1 == l0 && c1 < c0 {
						c1 = c0
					}
					var rg *[4]uint32
					if !r.chance(1, 6) {
						rg = &[4]uint32{uint32(l0), uint32(c0), uint32(l1), uint32(c1)}
					}
					text := r.pick(texts)
					d.cs = append(d.cs, c17Change{rg, text})
					d.cur = c17Apply(d.cur, rg, text) // only to keep later ranges inside the document
					batch = append(batch, lsp.TextDocumentContentChangeEvent{Range: lspRange(rg), Text: text})
				}
				d.version++
				if p, msg := safely(func() {
					if err := srv.DidChange(ctx, &lsp.DidChangeTextDocumentParams{
						TextDocument:   lsp.VersionedTextDocumentIdentifier{TextDocumentIdentifier: lsp.TextDocumentIdentifier{URI: d.uri}, Version: d.version},
						ContentChanges: batch,
					}); err != nil {
						failed = "DidChange: " + err.Error()
					}
				}); p {
					failed = fmt.Sprint("DidChange panicked: ", msg)
				}
				// the file watcher reports that the file (which holds something else than the unsaved buffer) was touched by
				// another program: the editor's buffer stays the truth
				if r.chance(1, 3) {
					kind := []lsp.FileChangeType{lsp.FileChangeTypeChanged, lsp.FileChangeTypeChanged, lsp.FileChangeTypeCreated}[r.intn(3)]
					if p, msg := safely(func() {
						_ = srv.DidChangeWatchedFiles(ctx, &lsp.DidChangeWatchedFilesParams{Changes: []*lsp.FileEvent{{Type: kind, URI: d.uri}}})
					}); p {
						failed = fmt.Sprint("DidChangeWatchedFiles panicked: ", msg)
					}
				}
				// closing one document leaves the others as they are
				if len(docs) > 1 && r.chance(1, 8) {
					c := docs[r.intn(len(docs))]
					if c.open && c != d {
						out := "PANIC"
						if dd, ok := srv.TemplSource.Get(string(c.uri)); ok {
							out = hx(dd.String())
						}
						enc := c17EncChanges(c.cs)
						e.emit(fmt.Sprintf("session %d %d %s %s %s", s, sub, c.uri, hx(c.doc0), enc), "hist", hx(c.doc0), enc, out)
						_ = srv.DidClose(ctx, &lsp.DidCloseTextDocumentParams{TextDocument: lsp.TextDocumentIdentifier{URI: c.uri}})
						c.open = false
					}
				}
			}
			for _, d := range docs {
				if !d.open {
					continue
				}
				out := "PANIC"
				if failed == "" {
					if dd, ok := srv.TemplSource.Get(string(d.uri)); ok {
						out = hx(dd.String())
					}
				}
				enc := c17EncChanges(d.cs)
				e.emit(fmt.Sprintf("session %d %d %s %s %s", s, sub, d.uri, hx(d.doc0), enc), "hist", hx(d.doc0), enc, out)
				_ = srv.DidClose(ctx, &lsp.DidCloseTextDocumentParams{TextDocument: lsp.TextDocumentIdentifier{URI: d.uri}})
			}
		}
	}
}
