package main

import (
	"bytes"
	"context"
	"fmt"
	"strings"

	"github.com/a-h/templ/cmd/templ/lspcmd/proxy"
	"github.com/a-h/templ/generator"
	lsp "github.com/a-h/templ/lsp/protocol"
	parser "github.com/a-h/templ/parser/v2"
)

// The source map as the language server uses it: an editor session against proxy.Server (open, edits that move
// expressions without changing the generated Go text, edits that change it), and after every step a hover request
// at every byte of chosen expressions of the CURRENT text. gopls (a recording stub) must be asked about the Go position
// that a fresh generation of the current text maps the templ position to.
type c07Target struct {
	lsp.Server
	asked *lsp.Position
}

func (t *c07Target) DidOpen(context.Context, *lsp.DidOpenTextDocumentParams) error     { return nil }
func (t *c07Target) DidChange(context.Context, *lsp.DidChangeTextDocumentParams) error { return nil }
func (t *c07Target) DidClose(context.Context, *lsp.DidCloseTextDocumentParams) error   { return nil }
func (t *c07Target) Hover(_ context.Context, p *lsp.HoverParams) (*lsp.Hover, error) {
	pos := p.Position
	t.asked = &pos
	return nil, nil
}

const c07LspDoc = "package main\n\ntempl List(items []string) {\n\t<ul>\n\t\tfor _, item := range items {\n\t\t\t<li>{ item }</li>\n\t\t}\n\t</ul>\n}\n\ntempl Page(name string, n int) {\n\t@List([]string{name})\n\tif name != \"\" {\n\t\t<p>x</p>\n\t}\n\tswitch n {\n\t\tcase 1:\n\t\t\t<b>one</b>\n\t}\n\t{{ total := n + 1 }}\n\t{{ _ = total }}\n}\n"

func c07LSP(e *emitter) {
	if !e.mine("lsphover") {
		return
	}
	needles := []string{"items []string", "_, item := range items", "List([]string{name})", "name != \"\"", "n {", "total := n + 1", "_ = total", "name string, n int"}
	steps := []struct {
		name string
		edit func(string) string
	}{
		{"open", func(s string) string { return s }},
		{"blank-lines-above-second-template", func(s string) string { return strings.Replace(s, "\ntempl Page(", "\n\n\n\ntempl Page(", 1) }},
		{"blank-line-inside-second-template", func(s string) string {
			return strings.Replace(s, "\tif name != \"\" {", "\n\tif name != \"\" {", 1)
		}},
		{"blank-lines-at-the-top", func(s string) string { return strings.Replace(s, "package main\n", "package main\n\n\n", 1) }},
		{"text-edit", func(s string) string { return strings.Replace(s, "<b>one</b>", "<b>one!</b>", 1) }},
		{"remove-blank-lines", func(s string) string { return strings.Replace(s, "\n\n\n\ntempl Page(", "\ntempl Page(", 1) }},
	}
	tgt := &c07Target{}
	srv := proxy.NewServer(quietLog, tgt, proxy.NewSourceMapCache(), proxy.NewDiagnosticCache(), true)
	ctx := lsp.WithClient(context.Background(), &c17Client{})
	uri := lsp.DocumentURI("file:///work/c07/page.templ")
	cur := c07LspDoc
	version := int32(1)
	for si, st := range steps {
		next := st.edit(cur)
		failed := ""
		if p, msg := safely(func() {
			var err error
			if si == 0 {
				err = srv.DidOpen(ctx, &lsp.DidOpenTextDocumentParams{TextDocument: lsp.TextDocumentItem{URI: uri, LanguageID: "templ", Version: version, Text: next}})
			} else {
				version++
				err = srv.DidChange(ctx, &lsp.DidChangeTextDocumentParams{
					TextDocument:   lsp.VersionedTextDocumentIdentifier{TextDocumentIdentifier: lsp.TextDocumentIdentifier{URI: uri}, Version: version},
					ContentChanges: []lsp.TextDocumentContentChangeEvent{{Text: next}},
				})
			}
			if err != nil {
				failed = err.Error()
			}
		}); p {
			failed = fmt.Sprint("panicked: ", msg)
		}
		cur = next
		// what a fresh generation of the current text says
		tf, err := parser.ParseString(cur)
		if err != nil {
			continue
		}
		var b bytes.Buffer
		op, err := generator.Generate(tf, &b)
		if err != nil {
			continue
		}
		var want, got []string
		lines := strings.Split(cur, "\n")
		for _, needle := range needles {
			for li, line := range lines {
				ci := strings.Index(line, needle)
				if ci < 0 {
					continue
				}
				for k := 0; k < len(needle); k++ {
					l, c := uint32(li), uint32(ci+k)
					w := "none"
					if to, ok := op.SourceMap.TargetPositionFromSource(l, c); ok {
						w = fmt.Sprintf("%d:%d", to.Line, to.Col)
					}
					g := "none"
					tgt.asked = nil
					if failed == "" {
						if p, msg := safely(func() {
							_, _ = srv.Hover(ctx, &lsp.HoverParams{TextDocumentPositionParams: lsp.TextDocumentPositionParams{TextDocument: lsp.TextDocumentIdentifier{URI: uri}, Position: lsp.Position{Line: l, Character: c}}})
						}); p {
							g = fmt.Sprint("panic:", msg)
						} else if tgt.asked != nil {
							g = fmt.Sprintf("%d:%d", tgt.asked.Line, tgt.asked.Character)
						}
					} else {
						g = "notification-failed:" + failed
					}
					want = append(want, fmt.Sprintf("%d:%d>%s", l, c, w))
					got = append(got, fmt.Sprintf("%d:%d>%s", l, c, g))
				}
				break
			}
		}
		e.emit("lsphover "+st.name, "lsphover", fmt.Sprint(si), st.name, hx(strings.Join(want, " ")), hx(strings.Join(got, " ")))
	}
}
