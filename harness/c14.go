package main

import (
	"sync/atomic"
	"runtime"
	"bufio"
	"bytes"
	"context"
	"errors"
	"fmt"
	"io"
	"net/http"
	"net/http/httptest"
	"os"
	"os/exec"
	"path/filepath"
	"strings"
	"sync"
	"time"

	"github.com/a-h/templ"
	"verif/harness/tmpl"
)

func init() {
	register("C14", runC14)
	register("C14child", runC14Child)
}

var c14Once = templ.NewOnceHandle(templ.WithComponent(tmpl.Leaf("once-shared")))

// a handle that was NOT created with NewOnceHandle (zero value), shared by all goroutines and first used by all of them at once
var c14ZeroOnce templ.OnceHandle

var c14ZeroOnceTwice = templ.ComponentFunc(func(ctx context.Context, w io.Writer) error {
	ctx = templ.InitializeContext(ctx)
	for i := 0; i < 2; i++ {
		if err := c14ZeroOnce.Once().Render(templ.WithChildren(ctx, templ.Raw("<once-zero/>")), w); err != nil {
			return err
		}
	}
	return nil
})

// package-level components shared by all goroutines
var c14Shared = []struct {
	name string
	c    templ.Component
}{
	{"leaf", tmpl.Leaf("x & y")}, {"big", tmpl.Big(300)}, {"page", tmpl.Page("T <1>", 120)}, {"join", templ.Join(tmpl.Leaf("a"), tmpl.Big(100), tmpl.Leaf("b"))},
	{"once", templ.Join(c14Once.Once(), c14Once.Once())}, {"hoist", tmpl.Hoist(true, true)}, {"failing-expr", tmpl.FailingExpr("x", true)},
	{"failing-nested", tmpl.FailingNested(true)}, {"css", tmpl.CSSComponentSink(tmpl.DynCSS("color", "red"))}, {"long-literal", tmpl.LongLiteral()},
	{"calltree", tmpl.CallWithBlock(tmpl.Use("1"), "m", tmpl.Twice("2"))},
	{"once-zero-value", c14ZeroOnceTwice},
}

type slowWriter struct {
	buf bytes.Buffer
	n   int
}

func (w *slowWriter) Write(p []byte) (int, error) {
	w.n++
	if w.n%3 == 0 {
		time.Sleep(50 * time.Microsecond)
	}
	return w.buf.Write(p)
}

type c14Ref struct {
	out  string
	kind string
}

func c14Reference() map[string]c14Ref {
	refs := map[string]c14Ref{}
	for _, s := range c14Shared {
		var sb strings.Builder
		err := s.c.Render(context.Background(), &sb)
		k, _ := c10ErrKind(err)
		refs[s.name] = c14Ref{sb.String(), k}
	}
	return refs
}

// runC14Child: N goroutines x M renders; prints one line per mismatch and a summary. Built with -race by the check.
func runC14Child(e *emitter, tier string, seed uint64) {
	G, M := 12, 60
	if tier == "thorough" {
		G, M = 16, 400
	}
	var mu sync.Mutex
	mismatches := 0
	first := ""
	renders := 0
	report := func(msg string) {
		mu.Lock()
		mismatches++
		if first == "" {
			first = msg
		}
		mu.Unlock()
	}
	// Phase 1 (cold start): all goroutines render every shared component at once BEFORE anything has been rendered in this
	// process, so first-use initialisation (development-mode text cache, once handles, pools) happens under contention.
	type coldOut struct{ out, kind string }
	cold := make([][]coldOut, G)
	start := make(chan struct{})
	var cwg sync.WaitGroup
	for g := 0; g < G; g++ {
		cwg.Add(1)
		go func(g int) {
			defer cwg.Done()
			<-start
			for i := range c14Shared {
				s := c14Shared[(i+g)%len(c14Shared)]
				var b bytes.Buffer
				err := s.c.Render(context.Background(), &b)
				k, _ := c10ErrKind(err)
				cold[g] = append(cold[g], coldOut{b.String(), k})
			}
		}(g)
	}
	close(start)
	cwg.Wait()
	refs := c14Reference()
	for g := 0; g < G; g++ {
		for i, co := range cold[g] {
			s := c14Shared[(i+g)%len(c14Shared)]
			if co.out != refs[s.name].out || co.kind != refs[s.name].kind {
				report(fmt.Sprintf("%s: cold-start concurrent render differs (%d vs %d bytes, err %s vs %s)", s.name, len(co.out), len(refs[s.name].out), co.kind, refs[s.name].kind))
			}
			renders++
		}
	}
	// In development mode, keep giving the text files a newer modification time so that the shared cache is reloaded while renders are in flight.
	stopTouch := make(chan struct{})
	if os.Getenv("TEMPL_DEV_MODE") == "true" {
		go func() {
			files, _ := filepath.Glob(filepath.Join(os.Getenv("TEMPL_DEV_MODE_ROOT"), "templ_*.txt"))
			for {
				select {
				case <-stopTouch:
					return
				case <-time.After(60 * time.Millisecond):
					now := time.Now()
					for _, f := range files {
						os.Chtimes(f, now, now)
					}
				}
			}
		}()
	}
	defer close(stopTouch)
	handlerFor := map[string]http.Handler{}
	for _, s := range c14Shared {
		handlerFor[s.name] = templ.Handler(s.c)
	}
	// one CSS middleware serves all requests; a page uses a class that is NOT registered with it and a script: every
	// response is the response a middleware of its own would give
	mkMW := func() http.Handler {
		return templ.NewCSSMiddleware(templ.Handler(tmpl.CSSComponentSink(tmpl.DynCSS("color", "red"))),
			templ.ComponentCSSClass{ID: "reg1", Class: templ.SafeCSS(".reg1{margin:0;}")})
	}
	mwRef := httptest.NewRecorder()
	mkMW().ServeHTTP(mwRef, httptest.NewRequest("GET", "/page", nil))
	sharedMW := mkMW()
	sharedOnceWC := templ.NewOnceHandle(templ.WithComponent(tmpl.ScriptNonceSink("n")))
	var wg sync.WaitGroup
	for g := 0; g < G; g++ {
		wg.Add(1)
		go func(g int) {
			defer wg.Done()
			r := &rng{s: seed*1000 + uint64(g)}
			for i := 0; i < M; i++ {
				s := c14Shared[r.intn(len(c14Shared))]
				ref := refs[s.name]
				if r.chance(1, 10) {
					// two fragments converted for html/template, used after both conversions (and whatever the others render meanwhile)
					other := c14Shared[r.intn(len(c14Shared))]
					fa, ea := templ.ToGoHTML(context.Background(), s.c)
					fb, eb := templ.ToGoHTML(context.Background(), other.c)
					runtime.Gosched()
					if ea == nil && string(fa) != ref.out {
						report(fmt.Sprintf("%s: a converted fragment changed while other components were rendered (%d vs %d bytes)", s.name, len(fa), len(ref.out)))
					}
					if eb == nil && string(fb) != refs[other.name].out {
						report(fmt.Sprintf("%s: a converted fragment changed while other components were rendered", other.name))
					}
					continue
				}
				if r.chance(1, 10) {
					// one once handle with a component of its own, shared by all requests; every request has its own context (nonce)
					nonce := fmt.Sprintf("n%d-%d", g, i)
					mk := func() context.Context { return templ.WithNonce(templ.InitializeContext(context.Background()), nonce) }
					var got, want bytes.Buffer
					errG := sharedOnceWC.Once().Render(mk(), &got)
					errW := templ.NewOnceHandle(templ.WithComponent(tmpl.ScriptNonceSink("n"))).Once().Render(mk(), &want)
					if got.String() != want.String() || (errG == nil) != (errW == nil) {
						report(fmt.Sprintf("shared once handle with a component: a render with its own context differs from the render of a handle of its own (%q vs %q)", got.String()[:min(60, got.Len())], want.String()[:min(60, want.Len())]))
					}
					continue
				}
				if r.chance(1, 8) {
					rec := httptest.NewRecorder()
					sharedMW.ServeHTTP(rec, httptest.NewRequest("GET", "/page", nil))
					if rec.Code != mwRef.Code || rec.Body.String() != mwRef.Body.String() {
						report(fmt.Sprintf("css middleware: a response through the shared middleware differs from a middleware of its own (%d vs %d bytes)", rec.Body.Len(), mwRef.Body.Len()))
					}
					continue
				}
				switch r.intn(7) {
				case 5, 6: // the caller's own large bufio.Writer, used for two documents and flushed afterwards
					var sink bytes.Buffer
					bw := bufio.NewWriterSize(&sink, 8192)
					err1 := s.c.Render(context.Background(), bw)
					k1, _ := c10ErrKind(err1)
					runtime.Gosched()
					err2 := s.c.Render(context.Background(), bw)
					k2, _ := c10ErrKind(err2)
					bw.Flush()
					if ref.kind == "nil" && (sink.String() != ref.out+ref.out || k1 != "nil" || k2 != "nil") {
						report(fmt.Sprintf("%s: two renders into the caller's bufio.Writer differ (%d vs %d bytes, err %s %s)", s.name, sink.Len(), 2*len(ref.out), k1, k2))
					}
				case 0: // plain buffer
					var b bytes.Buffer
					err := s.c.Render(context.Background(), &b)
					k, _ := c10ErrKind(err)
					if b.String() != ref.out || k != ref.kind {
						report(fmt.Sprintf("%s: plain render differs (%d vs %d bytes, err %s vs %s)", s.name, b.Len(), len(ref.out), k, ref.kind))
					}
				case 1: // slow writer
					w := &slowWriter{}
					err := s.c.Render(context.Background(), w)
					k, _ := c10ErrKind(err)
					if w.buf.String() != ref.out || k != ref.kind {
						report(fmt.Sprintf("%s: slow-writer render differs (%d vs %d bytes)", s.name, w.buf.Len(), len(ref.out)))
					}
				case 2: // failing writer: must get a prefix and an error
					k := r.intn(len(ref.out) + 1)
					fw := &faultStringWriter{faultWriter{limit: k, zero: r.chance(1, 2)}}
					err := s.c.Render(context.Background(), fw)
					if !strings.HasPrefix(ref.out, string(fw.got)) {
						report(fmt.Sprintf("%s: failing writer received bytes that are not a prefix of the document", s.name))
					}
					if k < len(ref.out) && err == nil {
						report(fmt.Sprintf("%s: writer failed at %d but Render returned nil", s.name, k))
					}
				case 3: // buffered HTTP handler
					rec := httptest.NewRecorder()
					handlerFor[s.name].ServeHTTP(rec, httptest.NewRequest("GET", "/", nil))
					if ref.kind == "nil" {
						if rec.Code != 200 || rec.Body.String() != ref.out {
							report(fmt.Sprintf("%s: handler response differs (status %d, %d vs %d bytes)", s.name, rec.Code, rec.Body.Len(), len(ref.out)))
						}
					} else if rec.Code != 500 || strings.Contains(rec.Body.String(), "<") {
						report(fmt.Sprintf("%s: failing component through the handler gave status %d body %q", s.name, rec.Code, rec.Body.String()[:min(40, rec.Body.Len())]))
					}
				default: // cancelled context
					ctx, cancel := context.WithCancel(context.Background())
					cancel()
					var b bytes.Buffer
					err := tmpl.Big(5).Render(ctx, &b)
					if !errors.Is(err, context.Canceled) || b.Len() != 0 {
						report("cancelled context: wrote output or wrong error")
					}
				}
				mu.Lock()
				renders++
				mu.Unlock()
			}
		}(g)
	}
	wg.Wait()
	// Phase 3 (development mode): one component's text file disappears for a moment (an editor replacing it, a clean
	// rebuild) while everything keeps rendering. Renders that need the missing file may fail while it is missing; every
	// other render must complete and be right, and after the file is back everything renders again.
	if os.Getenv("TEMPL_DEV_MODE") == "true" {
		files, _ := filepath.Glob(filepath.Join(os.Getenv("TEMPL_DEV_MODE_ROOT"), "templ_*.txt"))
		if len(files) > 0 {
			victim := files[int(seed)%len(files)]
			var missing atomic.Bool
			stop := make(chan struct{})
			var pwg sync.WaitGroup
			for g := 0; g < G; g++ {
				pwg.Add(1)
				go func(g int) {
					defer pwg.Done()
					r := &rng{s: seed*77 + uint64(g)}
					for {
						select {
						case <-stop:
							return
						default:
						}
						s := c14Shared[r.intn(len(c14Shared))]
						ref := refs[s.name]
						wasMissing := missing.Load()
						var b bytes.Buffer
						err := s.c.Render(context.Background(), &b)
						k, _ := c10ErrKind(err)
						if b.String() != ref.out || k != ref.kind {
							if !(err != nil && strings.Contains(err.Error(), "templ: failed") && (wasMissing || missing.Load())) {
								report(fmt.Sprintf("%s: render while a text file was being replaced differs (%d vs %d bytes, err %v)", s.name, b.Len(), len(ref.out), err))
							}
						}
						mu.Lock()
						renders++
						mu.Unlock()
						time.Sleep(time.Millisecond)
					}
				}(g)
			}
			time.Sleep(150 * time.Millisecond)
			missing.Store(true)
			os.Rename(victim, victim+".gone")
			time.Sleep(300 * time.Millisecond)
			os.Rename(victim+".gone", victim)
			now := time.Now()
			os.Chtimes(victim, now, now)
			time.Sleep(250 * time.Millisecond)
			missing.Store(false)
			time.Sleep(150 * time.Millisecond)
			close(stop)
			done := make(chan struct{})
			go func() { pwg.Wait(); close(done) }()
			select {
			case <-done:
			case <-time.After(20 * time.Second):
				report("renders are stuck after a development text file went missing for 300 ms")
				if first == "" {
					first = "-"
				}
				fmt.Fprintf(e.w, "RESULT renders=%d mismatches=%d first=%s\n", renders, mismatches, hx(first))
				e.w.Flush()
				os.Exit(0)
			}
			for _, s := range c14Shared {
				var b bytes.Buffer
				err := s.c.Render(context.Background(), &b)
				k, _ := c10ErrKind(err)
				if b.String() != refs[s.name].out || k != refs[s.name].kind {
					report(fmt.Sprintf("%s: render after the text file came back differs (err %v)", s.name, err))
				}
			}
		}
	}
	if first == "" {
		first = "-"
	}
	fmt.Fprintf(e.w, "RESULT renders=%d mismatches=%d first=%s\n", renders, mismatches, hx(first))
}

func min(a, b int) int {
	if a < b {
		return a
	}
	return b
}

var _ = io.Discard

// runC14 starts the race-built child twice (normal and development mode) and reports what it and the race detector saw.
func runC14(e *emitter, tier string, seed uint64) {
	root := os.Getenv("VERIF_ROOT")
	if root == "" {
		root = "/verif"
	}
	race := filepath.Join(root, ".work", "harness-race")
	if _, err := os.Stat(race); err != nil {
		e.emit("conc missing", "conc", "setup", "0", "1", hx("race-built harness not found: "+race), "0", "-")
		return
	}
	// development text files for dev mode (real FSEventHandler), as in C16
	devRoot := filepath.Join(workDir, "devtxt")
	if workDir == "" {
		devRoot = filepath.Join(root, ".work", "devtxt14")
	}
	os.MkdirAll(devRoot, 0o755)
	os.Setenv("TEMPL_DEV_MODE_ROOT", devRoot)
	c16WriteDevFiles(root)
	rounds := 2
	if tier == "thorough" {
		rounds = 6
	}
	for _, mode := range []string{"normal", "dev"} {
		for round := 0; round < rounds; round++ {
			cmd := exec.Command(race, "C14child", "-tier", tier, "-seed", fmt.Sprint(seed+uint64(round)))
			cmd.Env = append(os.Environ(), "GORACE=halt_on_error=0 exitcode=0")
			if mode == "dev" {
				cmd.Env = append(cmd.Env, "TEMPL_DEV_MODE=true", "TEMPL_DEV_MODE_ROOT="+devRoot)
			}
			var stderr bytes.Buffer
			cmd.Stderr = &stderr
			out, err := cmd.Output()
			races := strings.Count(stderr.String(), "WARNING: DATA RACE")
			fatal := ""
			if strings.Contains(stderr.String(), "fatal error:") {
				i := strings.Index(stderr.String(), "fatal error:")
				fatal = strings.SplitN(stderr.String()[i:], "\n", 2)[0]
			}
			renders, mism, first := "0", "1", hx(fmt.Sprintf("child failed: %v %s", err, fatal))
			for _, l := range strings.Split(string(out), "\n") {
				if strings.HasPrefix(l, "RESULT ") {
					fmt.Sscanf(l, "RESULT renders=%s mismatches=%s first=%s", &renders, &mism, &first)
				}
			}
			raceDetail := "-"
			if races > 0 {
				i := strings.Index(stderr.String(), "WARNING: DATA RACE")
				raceDetail = hx(stderr.String()[i:min(len(stderr.String()), i+1500)])
			} else if fatal != "" {
				raceDetail = hx(fatal)
				races = 1
			}
			e.emit(fmt.Sprintf("conc %s %d", mode, round), "conc", mode, renders, mism, first, fmt.Sprint(races), raceDetail)
		}
	}
}
