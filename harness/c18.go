package main

import (
	"os/exec"
	"os"
	"bytes"
	"context"
	"encoding/json"
	"errors"
	"fmt"
	"io"
	"net"
	"strings"
	"sync"
	"time"

	"github.com/a-h/templ/lsp/jsonrpc2"
)

func init() {
	register("C18", runC18)
	register("C18child", runC18Child)
}

// chunkConn delivers a fixed byte stream in scripted chunk sizes and records what is written.
type chunkConn struct {
	data   []byte
	sizes  []int
	i      int
	out    bytes.Buffer
	closed bool
}

func (c *chunkConn) Read(p []byte) (int, error) {
	if len(c.data) == 0 {
		return 0, io.EOF
	}
	n := len(c.data)
	if len(c.sizes) > 0 {
		n = c.sizes[c.i%len(c.sizes)]
		c.i++
	}
	if n > len(c.data) {
		n = len(c.data)
	}
	if n > len(p) {
		n = len(p)
	}
	if n == 0 {
		n = 1
	}
	copy(p, c.data[:n])
	c.data = c.data[n:]
	return n, nil
}
func (c *chunkConn) Write(p []byte) (int, error) { return c.out.Write(p) }
func (c *chunkConn) Close() error                { c.closed = true; return nil }

func c18ErrKind(err error, consumed int64) string {
	if err == nil {
		return "ok"
	}
	s := err.Error()
	switch {
	case strings.HasPrefix(s, "failed reading header line"):
		if errors.Is(err, io.EOF) && consumed == 0 {
			return "eof"
		}
		return "eofInHeader"
	case strings.HasPrefix(s, "invalid header line"):
		return "invalidHeaderLine"
	case strings.HasPrefix(s, "failed parsing Content-Length"):
		return "badLength"
	case strings.HasPrefix(s, "invalid Content-Length"):
		return "nonPositiveLength"
	case strings.HasPrefix(s, "missing Content-Length"):
		return "missingLength"
	case strings.HasPrefix(s, "read full of data"):
		return "shortBody"
	}
	return "decode:" + strings.ReplaceAll(s, " ", "_")
}

// c18ReadAll reads messages from wire bytes delivered in chunks through the REAL stream until an error; returns the
// re-marshalled bodies, the terminating error kind, and whether it hung or panicked.
func c18ReadAll(wire []byte, sizes []int) (bodies []string, kind string) {
	done := make(chan struct{})
	go func() {
		defer close(done)
		defer func() {
			if r := recover(); r != nil {
				kind = "panic"
			}
		}()
		s := jsonrpc2.NewStream(&chunkConn{data: append([]byte(nil), wire...), sizes: sizes})
		for {
			msg, n, err := s.Read(context.Background())
			if err != nil {
				kind = c18ErrKind(err, n)
				return
			}
			b, _ := json.Marshal(msg)
			bodies = append(bodies, string(b))
		}
	}()
	select {
	case <-done:
	case <-time.After(3 * time.Second):
		return nil, "hang"
	}
	return bodies, kind
}

func c18Msgs(r *rng, n int) []jsonrpc2.Message {
	payloads := []any{nil, 1, "x", "é 日本 😀", map[string]any{"k": []any{1, "two", nil}}, strings.Repeat("y", 5000), []string{}, "line\nbreak \"q\" \\"}
	var out []jsonrpc2.Message
	for i := 0; i < n; i++ {
		switch r.intn(4) {
		case 0:
			m, _ := jsonrpc2.NewCall(jsonrpc2.NewNumberID(int32(r.intn(100000))), "m/"+fmt.Sprint(i), payloads[r.intn(len(payloads))])
			out = append(out, m)
		case 1:
			// string ids chosen by the peer, including characters JSON writes as escapes
			sid := r.pick([]string{"id-é-", "a<b>&c-", "q\"uote-", "back\\slash-", "tab\t-", "nl\n-", "\u2028-", "", "0", "-"}) + fmt.Sprint(i)
			m, _ := jsonrpc2.NewCall(jsonrpc2.NewStringID(sid), "textDocument/didOpen", payloads[r.intn(len(payloads))])
			out = append(out, m)
		case 2:
			m, _ := jsonrpc2.NewNotification("$/progress", payloads[r.intn(len(payloads))])
			out = append(out, m)
		default:
			var e error
			if r.chance(1, 3) {
				e = errors.New("boom é")
			}
			var res any = payloads[1+r.intn(len(payloads)-1)]
			if r.chance(1, 4) {
				// a success response whose result is null (what reply(ctx, nil, nil) writes, e.g. for LSP shutdown), or false / 0 / ""
				res = []any{nil, false, 0, ""}[r.intn(4)]
			}
			m, _ := jsonrpc2.NewResponse(jsonrpc2.NewNumberID(int32(r.intn(1000))), res, e)
			out = append(out, m)
		}
	}
	return out
}

func joinHex(xs []string) string {
	if len(xs) == 0 {
		return "-"
	}
	h := make([]string, len(xs))
	for i, x := range xs {
		h[i] = hx(x)
	}
	return strings.Join(h, ";")
}

// cancelOnWrite is a transport that cancels a context while its k-th Write is in progress (the bytes of that write
// are still delivered), as a slow peer plus an impatient caller would.
type cancelOnWrite struct {
	buf    bytes.Buffer
	n, k   int
	cancel context.CancelFunc
}

func (c *cancelOnWrite) Read(p []byte) (int, error) { return 0, io.EOF }
func (c *cancelOnWrite) Close() error                { return nil }
func (c *cancelOnWrite) Write(p []byte) (int, error) {
	c.n++
	if c.n == c.k && c.cancel != nil {
		c.cancel()
	}
	return c.buf.Write(p)
}

// c18WriteCancel: a write whose context is cancelled while one of its transport writes is in progress, followed by an
// ordinary write on the same stream. What is on the wire must still be a sequence of whole frames.
func c18WriteCancel(e *emitter) {
	for k := 1; k <= 3; k++ {
		key := fmt.Sprintf("wcancel %d", k)
		if !e.mine(key) {
			continue
		}
		ctx, cancel := context.WithCancel(context.Background())
		tr := &cancelOnWrite{k: k, cancel: cancel}
		st := jsonrpc2.NewStream(tr)
		m1, _ := jsonrpc2.NewCall(jsonrpc2.NewNumberID(1), "first/call", map[string]any{"a": 1})
		m2, _ := jsonrpc2.NewNotification("second/note", "x")
		_, err1 := st.Write(ctx, m1)
		_, err2 := st.Write(context.Background(), m2)
		b1, _ := json.Marshal(m1)
		b2, _ := json.Marshal(m2)
		e.emit(key, "wcancel", fmt.Sprint(k), hx(tr.buf.String()), hx(string(b1)), hx(string(b2)), b01(err1 != nil), b01(err2 != nil))
	}
}

func runC18(e *emitter, tier string, seed uint64) {
	c18WriteCancel(e)
	r := &rng{s: seed}
	doStream := func(wire []byte, sizes []int, wantBodies []string, tag string) {
		ss := "-"
		if len(sizes) > 0 {
			parts := make([]string, len(sizes))
			for i, s := range sizes {
				parts[i] = fmt.Sprint(s)
			}
			ss = strings.Join(parts, ",")
		}
		key := tag + " " + string(wire) + " " + ss
		if !e.mine(key) {
			return
		}
		bodies, kind := c18ReadAll(wire, sizes)
		e.emit(key, "stream", tag, hx(string(wire)), ss, joinHex(wantBodies), joinHex(bodies), kind)
	}
	for _, f := range e.corpusLines() {
		if len(f) >= 4 && f[0] == "C18" && f[1] == "stream" {
			var sizes []int
			if f[4] != "-" {
				for _, p := range strings.Split(f[4], ",") {
					var n int
					fmt.Sscanf(p, "%d", &n)
					sizes = append(sizes, n)
				}
			}
			doStream([]byte(unhx(f[3])), sizes, nil, f[2])
		}
	}
	if e.onlyCorpus {
		return
	}
	// 1. round trips: real Write framing, every split point of short two-frame streams, assorted chunk sizes of long ones
	nseq := 40
	if tier == "thorough" {
		nseq = 600
	}
	for i := 0; i < nseq; i++ {
		msgs := c18Msgs(r, 1+r.intn(5))
		cc := &chunkConn{}
		ws := jsonrpc2.NewStream(cc)
		var want []string
		for _, m := range msgs {
			ws.Write(context.Background(), m)
			b, _ := json.Marshal(m)
			want = append(want, string(b))
		}
		wire := cc.out.Bytes()
		doStream(wire, nil, want, "roundtrip")
		for _, sz := range []int{1, 2, 3, 5, 17, 64, 4095, 4096, 4097} {
			doStream(wire, []int{sz}, want, "roundtrip")
		}
		doStream(wire, []int{1 + r.intn(30), 1 + r.intn(3), 1 + r.intn(5000)}, want, "roundtrip")
		if len(wire) < 400 {
			for cut := 1; cut < len(wire); cut++ {
				doStream(wire, []int{cut, len(wire)}, want, "roundtrip-split")
			}
		}
	}
	// 2. malformed and truncated frames around a valid body
	body := `{"jsonrpc":"2.0","method":"x"}`
	L := fmt.Sprint(len(body))
	mal := []string{
		"", "\r\n", "Content-Length: " + L + "\r\n\r\n" + body[:10], "Content-Length: " + L + "\r\n", "Content-Length: " + L, "Content-Length: 0\r\n\r\n" + body,
		"Content-Length: -5\r\n\r\n" + body, "Content-Length: +" + L + "\r\n\r\n" + body, "Content-Length: 99999999999\r\n\r\n" + body, "Content-Length: 2147483648\r\n\r\n",
		"Content-Length: abc\r\n\r\n" + body, "Content-Length:" + L + "\r\n\r\n" + body, "Content-Length : " + L + "\r\n\r\n" + body, "content-length: " + L + "\r\n\r\n" + body,
		"Content-Length: " + L + "\n\n" + body, "Content-Type: x\r\nContent-Length: " + L + "\r\n\r\n" + body, "Content-Length: 5\r\nContent-Length: " + L + "\r\n\r\n" + body,
		"X-Other: y\r\n\r\n" + body, "no colon here\r\n\r\n", "Content-Length: " + L + "\r\n\r\n" + body + "Content-Length: 3\r\n\r\n{}", "\r\n\r\nContent-Length: " + L + "\r\n\r\n" + body,
		"Content-Length: " + L + " \r\n\r\n" + body, "  Content-Length: " + L + "\r\n\r\n" + body, "Content-Length: 1_0\r\n\r\n" + body, "Content-Length: 0x1e\r\n\r\n" + body,
		"Content-Length: " + L + "\r\n\r\n" + body + "\r\n", ":\r\n\r\n", "Content-Length: \r\n\r\n", "Content-Length: " + L + "\r\nX\r\n\r\n" + body, strings.Repeat("A", 70000),
		"Content-Length: 1\r\n\r\n{", "Content-Length: 2\r\n\r\n{}", "Content-Length: 4\r\n\r\nnull",
	}
	for _, m := range mal {
		for _, sz := range [][]int{nil, {1}, {7}} {
			doStream([]byte(m), sz, nil, "malformed")
		}
	}
	nm := 300
	if tier == "thorough" {
		nm = 20000
	}
	pieces := []string{"Content-Length", ":", " ", L, "\r\n", "\n", "\r", body, "0", "-", "x", "Content-Type: a\r\n", "\r\n\r\n"}
	for i := 0; i < nm; i++ {
		var sb strings.Builder
		for k := r.intn(10); k >= 0; k-- {
			sb.WriteString(r.pick(pieces))
		}
		doStream([]byte(sb.String()), []int{1 + r.intn(9)}, nil, "malformed")
	}
	// 2b. one connection used in both roles at once: it answers incoming calls while other goroutines send
	// notifications and calls of their own. Whatever it writes must be a sequence of whole frames.
	nmux := 3
	if tier == "thorough" {
		nmux = 40
	}
	for i := 0; i < nmux; i++ {
		c18Mux(e, r, i)
	}
	// 2c. callers released together, with parameters that take a moment to encode: every caller gets an id of its own and
	// the response to ITS request (the peer echoes the parameters)
	npc := 3
	if tier == "thorough" {
		npc = 30
	}
	for i := 0; i < npc; i++ {
		c18ParallelCalls(e, i)
	}
	// 2d. a handler that returns an error fails the connection - it must not bring the process down (child process: a
	// panic in the read loop cannot be recovered from here)
	if e.mine("handlererr") {
		self, _ := os.Executable()
		cmd := exec.Command(self, "C18child")
		var stderr bytes.Buffer
		cmd.Stderr = &stderr
		out, err := cmd.Output()
		status := strings.TrimSpace(string(out))
		if err != nil || status == "" {
			status = fmt.Sprintf("child failed: %v", err)
			if i := strings.Index(stderr.String(), "panic:"); i >= 0 {
				status = strings.SplitN(stderr.String()[i:], "\n", 2)[0]
			}
		}
		e.emit("handlererr", "handlererr", hx(status))
	}
	// 2e. a frame whose body holds something after the message (a second value, garbage) is malformed: an error
	for i, tail := range []string{"", " ", "\n", "\r\n\t ", "x", " trailing garbage", "{\"x", "{}", "[]", "null", " 1", "\x00", "}"} {
		for j, body := range []string{`{"jsonrpc":"2.0","method":"a"}`, `{"jsonrpc":"2.0","id":1,"method":"m","params":[1]}`, `{"jsonrpc":"2.0","id":"s","result":{"k":"v"}}`} {
			key := fmt.Sprintf("trailing %d %d", i, j)
			if !e.mine(key) {
				continue
			}
			payload := body + tail
			wire := fmt.Sprintf("Content-Length: %d\r\n\r\n%s", len(payload), payload)
			st := jsonrpc2.NewStream(&chunkConn{data: []byte(wire)})
			outcome := "hang"
			done := make(chan string, 1)
			go func() {
				defer func() {
					if p := recover(); p != nil {
						done <- "panic"
					}
				}()
				msg, _, err := st.Read(context.Background())
				if err != nil {
					done <- "error"
				} else if msg == nil {
					done <- "nil-message"
				} else {
					done <- "message"
				}
			}()
			select {
			case outcome = <-done:
			case <-time.After(2 * time.Second):
			}
			e.emit(key, "trailing", hx(body), hx(tail), outcome)
		}
	}
	// 3. call / response matching against a scripted peer over net.Pipe
	rounds := 30
	if tier == "thorough" {
		rounds = 400
	}
	c18Rpc(e, r, rounds)
}

// c18Rpc runs N concurrent callers against a peer that answers out of order, late, never, for unknown ids, and with
// the caller's cancellation racing the reply; records (thread, call id, outcome) and the order in which the peer
// sent responses, for the driver to replay on the model.
func c18Rpc(e *emitter, r *rng, rounds int) {
	for round := 0; round < rounds; round++ {
		n := 1 + r.intn(6)
		c1, c2 := net.Pipe()
		conn := jsonrpc2.NewConn(jsonrpc2.NewStream(c1))
		peer := jsonrpc2.NewStream(c2)
		ctx, stop := context.WithCancel(context.Background())
		conn.Go(ctx, func(ctx context.Context, reply jsonrpc2.Replier, req jsonrpc2.Request) error { return reply(ctx, nil, nil) })
		var mu sync.Mutex
		cancels := map[int32]context.CancelFunc{}
		modes := make([]int, n) // 0 answer, 1 answer late (after others), 2 never (caller cancels), 3 cancel racing reply, 4 also send a response for an unknown id first, 5 answer six times in one piece
		for i := range modes {
			modes[i] = r.intn(6)
		}
		var sent []string
		var late []int32
		peerDone := make(chan struct{})
		seen := 0
		go func() {
			defer close(peerDone)
			respond := func(rid int32) {
				resp, _ := jsonrpc2.NewResponse(jsonrpc2.NewNumberID(rid), rid, nil)
				mu.Lock()
				sent = append(sent, fmt.Sprint(rid))
				mu.Unlock()
				peer.Write(ctx, resp)
			}
			for seen < n {
				msg, _, err := peer.Read(ctx)
				if err != nil {
					return
				}
				call, ok := msg.(*jsonrpc2.Call)
				if !ok {
					continue
				}
				seen++
				var id int32
				fmt.Sscanf(fmt.Sprint(call.ID()), "%d", &id)
				var thread int
				json.Unmarshal(call.Params(), &thread)
				switch modes[thread] {
				case 0:
					respond(id)
				case 1:
					late = append(late, id)
				case 2:
					mu.Lock()
					c := cancels[id]
					mu.Unlock()
					if c != nil {
						c()
					}
				case 3:
					mu.Lock()
					c := cancels[id]
					mu.Unlock()
					if c != nil {
						c()
					}
					respond(id)
				case 4:
					respond(id + 1000)
					respond(id)
				case 5:
					// a peer that repeats itself must not stall the connection for the other calls
					// (the copies arrive in one piece, so the read loop meets them back to back)
					body := fmt.Sprintf(`{"jsonrpc":"2.0","id":%d,"result":%d}`, id, id)
					frame := fmt.Sprintf("Content-Length: %d\r\n\r\n%s", len(body), body)
					mu.Lock()
					for k := 0; k < 6; k++ {
						sent = append(sent, fmt.Sprint(id))
					}
					mu.Unlock()
					c2.Write([]byte(strings.Repeat(frame, 6)))
				}
			}
			for i := len(late) - 1; i >= 0; i-- {
				respond(late[i])
			}
		}()
		type outcome struct {
			thread int
			id     string
			res    string
		}
		outs := make([]outcome, n)
		var wg sync.WaitGroup
		var startMu sync.Mutex
		for t := 0; t < n; t++ {
			wg.Add(1)
			go func(t int) {
				defer wg.Done()
				cctx, cancel := context.WithTimeout(ctx, 2*time.Second)
				defer cancel()
				var result int32 = -1
				// the call id is only known once Call returns, so register the cancel func under the id the connection
				// will assign next: calls are started one at a time under startMu to keep that mapping exact
				startMu.Lock()
				mu.Lock()
				nextID := int32(len(cancels) + 1)
				cancels[nextID] = cancel
				mu.Unlock()
				type ret struct {
					id  jsonrpc2.ID
					err error
				}
				rc := make(chan ret, 1)
				go func() {
					id, err := conn.Call(cctx, "m", t, &result)
					rc <- ret{id, err}
				}()
				time.Sleep(300 * time.Microsecond) // let the call take its id before the next thread starts
				startMu.Unlock()
				var rv ret
				stuck := false
				select {
				case rv = <-rc:
				case <-time.After(5 * time.Second):
					// the call did not even honour its own deadline (2 s): the connection is wedged
					stuck = true
				}
				o := outcome{thread: t, id: fmt.Sprint(rv.id)}
				switch {
				case stuck:
					o.id = fmt.Sprint(nextID)
					o.res = "stuck"
				case rv.err == nil:
					o.res = fmt.Sprintf("r%d", result)
				case errors.Is(rv.err, context.Canceled) || errors.Is(rv.err, context.DeadlineExceeded):
					o.res = "cancelled"
				default:
					o.res = "err:" + strings.ReplaceAll(rv.err.Error(), " ", "_")
				}
				outs[t] = o
			}(t)
		}
		wg.Wait()
		select {
		case <-peerDone:
		case <-time.After(time.Second):
		}
		stop()
		c1.Close()
		c2.Close()
		var ob []string
		for _, o := range outs {
			ob = append(ob, fmt.Sprintf("%d:%s:%s", o.thread, o.id, o.res))
		}
		mu.Lock()
		ss := strings.Join(sent, ",")
		mu.Unlock()
		if ss == "" {
			ss = "-"
		}
		ms := make([]string, n)
		for i, m := range modes {
			ms[i] = fmt.Sprint(m)
		}
		e.emit(fmt.Sprintf("rpc %d %d", round, e.emitted), "rpc", strings.Join(ms, ","), strings.Join(ob, ";"), ss)
	}
}

// muxConn records what the connection writes (pausing after a header, which is when another writer would cut in) and
// feeds it what the peer sends.
type muxConn struct {
	mu  sync.Mutex
	out bytes.Buffer
	in  *io.PipeReader
}

func (c *muxConn) Read(p []byte) (int, error) { return c.in.Read(p) }
func (c *muxConn) Close() error               { return c.in.Close() }
func (c *muxConn) Write(p []byte) (int, error) {
	c.mu.Lock()
	c.out.Write(p)
	c.mu.Unlock()
	if bytes.HasPrefix(p, []byte("Content-Length")) {
		time.Sleep(150 * time.Microsecond)
	}
	return len(p), nil
}

func c18Mux(e *emitter, r *rng, round int) {
	pr, pw := io.Pipe()
	mc := &muxConn{in: pr}
	conn := jsonrpc2.NewConn(jsonrpc2.NewStream(mc))
	ctx, stop := context.WithCancel(context.Background())
	defer stop()
	var replied sync.WaitGroup
	nIn := 20 + r.intn(20)
	replied.Add(nIn)
	conn.Go(ctx, func(ctx context.Context, reply jsonrpc2.Replier, req jsonrpc2.Request) error {
		defer replied.Done()
		return reply(ctx, map[string]string{"echo": strings.Repeat("r", 40)}, nil)
	})
	senders, each := 3, 15
	var wg sync.WaitGroup
	for g := 0; g < senders; g++ {
		wg.Add(1)
		go func(g int) {
			defer wg.Done()
			for k := 0; k < each; k++ {
				conn.Notify(ctx, "note", map[string]any{"g": g, "k": k, "pad": strings.Repeat("n", 30+k)})
			}
		}(g)
	}
	// the peer: incoming calls, written frame by frame
	go func() {
		for k := 0; k < nIn; k++ {
			body := fmt.Sprintf(`{"jsonrpc":"2.0","id":%d,"method":"ask","params":{"k":%d}}`, 1000+k, k)
			fmt.Fprintf(pw, "Content-Length: %d\r\n\r\n%s", len(body), body)
		}
	}()
	wg.Wait()
	done := make(chan struct{})
	go func() { replied.Wait(); close(done) }()
	select {
	case <-done:
	case <-time.After(5 * time.Second):
	}
	time.Sleep(5 * time.Millisecond)
	stop()
	pw.Close()
	mc.mu.Lock()
	wire := append([]byte(nil), mc.out.Bytes()...)
	mc.mu.Unlock()
	e.emit(fmt.Sprintf("mux %d %d", round, e.emitted), "mux", fmt.Sprint(nIn+senders*each), hx(string(wire)))
}

// slowParam encodes slowly, so that callers overlap inside Call.
type slowParam string

func (p slowParam) MarshalJSON() ([]byte, error) {
	time.Sleep(300 * time.Microsecond)
	return json.Marshal(string(p))
}

func c18ParallelCalls(e *emitter, round int) {
	c1, c2 := net.Pipe()
	conn := jsonrpc2.NewConn(jsonrpc2.NewStream(c1))
	peer := jsonrpc2.NewStream(c2)
	ctx, stop := context.WithCancel(context.Background())
	conn.Go(ctx, func(ctx context.Context, reply jsonrpc2.Replier, req jsonrpc2.Request) error { return reply(ctx, nil, nil) })
	const n = 8
	go func() { // the peer echoes the parameters of every call as its result
		for {
			msg, _, err := peer.Read(ctx)
			if err != nil {
				return
			}
			if call, ok := msg.(*jsonrpc2.Call); ok {
				var p string
				json.Unmarshal(call.Params(), &p)
				resp, _ := jsonrpc2.NewResponse(call.ID(), p, nil)
				peer.Write(ctx, resp)
			}
		}
	}()
	start := make(chan struct{})
	ids := make([]string, n)
	wrong := 0
	var mu sync.Mutex
	var wg sync.WaitGroup
	for t := 0; t < n; t++ {
		wg.Add(1)
		go func(t int) {
			defer wg.Done()
			<-start
			cctx, cancel := context.WithTimeout(ctx, 2*time.Second)
			defer cancel()
			want := fmt.Sprintf("round %d caller %d", round, t)
			var got string
			done := make(chan struct{})
			var id jsonrpc2.ID
			var err error
			go func() { id, err = conn.Call(cctx, "echo", slowParam(want), &got); close(done) }()
			select {
			case <-done:
			case <-time.After(5 * time.Second):
				err = errors.New("stuck")
			}
			mu.Lock()
			ids[t] = fmt.Sprint(id)
			if err != nil || got != want {
				wrong++
			}
			mu.Unlock()
		}(t)
	}
	close(start)
	wg.Wait()
	stop()
	c1.Close()
	c2.Close()
	seen := map[string]bool{}
	dups := 0
	for _, id := range ids {
		if seen[id] {
			dups++
		}
		seen[id] = true
	}
	e.emit(fmt.Sprintf("pcall %d", round), "pcall", fmt.Sprint(n), fmt.Sprint(wrong), fmt.Sprint(dups))
}

// runC18Child: a connection whose handler returns an error for a notification; the peer then sends more and hangs up.
func runC18Child(e *emitter, tier string, seed uint64) {
	for _, herr := range []error{errors.New("handler failed"), fmt.Errorf("wrapped: %w", io.ErrUnexpectedEOF), context.Canceled} {
		c1, c2 := net.Pipe()
		conn := jsonrpc2.NewConn(jsonrpc2.NewStream(c1))
		ctx, stop := context.WithCancel(context.Background())
		herr := herr
		conn.Go(ctx, func(ctx context.Context, reply jsonrpc2.Replier, req jsonrpc2.Request) error { return herr })
		peer := jsonrpc2.NewStream(c2)
		n, _ := jsonrpc2.NewNotification("note", 1)
		go func() {
			peer.Write(ctx, n)
			peer.Write(ctx, n)
			c2.Close()
		}()
		select {
		case <-conn.Done():
		case <-time.After(3 * time.Second):
			fmt.Fprintln(e.w, "connection did not finish after its handler failed")
			stop()
			return
		}
		if conn.Err() == nil {
			fmt.Fprintln(e.w, "connection finished without an error although its handler failed")
			stop()
			return
		}
		stop()
	}
	fmt.Fprintln(e.w, "ok")
}
