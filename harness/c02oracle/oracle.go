// Package c02oracle holds the expression vocabulary of the C02 correspondence runs: every Go expression in a
// generated template is a call of one of these functions with a key; the value comes from the table V, and the call
// is recorded in Trace. The same file is compiled into the harness (to compute the values the Lean model is given)
// and, copied with `package main`, into each compiled batch of generated templates.
package c02oracle

import (
	"bytes"
	"context"
	"errors"
	"io"
	"strconv"
	"strings"

	"github.com/a-h/templ"
)

var V = map[string]string{}
var Trace []string

func mark(k string) { Trace = append(Trace, k) }

func S(k string) string { mark(k); return V[k] }

func SE(k string) (string, error) {
	mark(k)
	if V[k+"!"] != "" {
		return V[k], errors.New("oracle error " + k)
	}
	return V[k], nil
}

func B(k string) bool { mark(k); return V[k] == "1" }

func IT(k string) []string {
	mark(k)
	if V[k] == "" {
		return nil
	}
	return strings.Split(V[k], "|")
}

func N(k string) int { mark(k); n, _ := strconv.Atoi(V[k]); return n }

func U(k string) templ.SafeURL { mark(k); return templ.SafeURL(V[k]) }

func A(k string) templ.Attributes {
	mark(k)
	return AttrsOf(V[k])
}

// AttrsOf parses "name=value,flag,off=!,p=&,q=&!,r=*text,n=*": string values, true booleans, `!` for false, `&` / `&!`
// for a *bool pointing to true / false, `*text` for a *string, and a bare `*` for a nil *string.
func AttrsOf(spec string) templ.Attributes {
	a, _ := AttrsDesc(spec)
	return a
}

// AttrsDesc also describes the map for the Lean model of RenderAttributes: key -> "s~<value>", "b~1", "bp~0", "sp~<value>", "spn".
func AttrsDesc(spec string) (templ.Attributes, map[string][2]string) {
	a := templ.Attributes{}
	d := map[string][2]string{}
	if spec == "" {
		return a, d
	}
	for _, p := range strings.Split(spec, ",") {
		if i := strings.IndexByte(p, '='); i >= 0 {
			k, v := p[:i], p[i+1:]
			switch {
			case v == "!":
				a[k], d[k] = false, [2]string{"b", "0"}
			case v == "&":
				t := true
				a[k], d[k] = &t, [2]string{"bp", "1"}
			case v == "&!":
				f := false
				a[k], d[k] = &f, [2]string{"bp", "0"}
			case v == "*":
				a[k], d[k] = (*string)(nil), [2]string{"spn", ""}
			case strings.HasPrefix(v, "*"):
				sv := v[1:]
				a[k], d[k] = &sv, [2]string{"sp", sv}
			default:
				a[k], d[k] = v, [2]string{"s", v}
			}
		} else {
			a[p], d[p] = true, [2]string{"b", "1"}
		}
	}
	return a, d
}

type SegComp struct {
	Segs []string
	Fail bool
}

func (c SegComp) Render(ctx context.Context, w io.Writer) error {
	if c.Fail {
		return errors.New("oracle component error")
	}
	children := templ.GetChildren(ctx)
	ctx = templ.ClearChildren(ctx)
	// Some components render their children into a writer of their own first and copy the result to the page (a
	// component that caches, measures or post-processes its block): the block must write to the writer it is GIVEN.
	buffered := len(c.Segs) >= 2 && len(strings.Join(c.Segs, ""))%2 == 1
	for i, s := range c.Segs {
		var own bytes.Buffer
		var ownErr error
		last := i == len(c.Segs)-1
		if buffered && !last {
			ownErr = children.Render(ctx, &own)
		}
		if _, err := io.WriteString(w, s); err != nil {
			return err
		}
		if last {
			break
		}
		if buffered {
			if _, err := w.Write(own.Bytes()); err != nil {
				return err
			}
			if ownErr != nil {
				return ownErr
			}
		} else if err := children.Render(ctx, w); err != nil {
			return err
		}
	}
	return nil
}

func C(k string) templ.Component {
	mark(k)
	return SegComp{Segs: strings.Split(V[k], "|"), Fail: V[k+"!"] != ""}
}

func H(k string) templ.ComponentScript {
	mark(k)
	return ScriptOf(V[k])
}

func ScriptOf(v string) templ.ComponentScript {
	name := "fn_" + v
	return templ.ComponentScript{Name: name, Function: "function " + name + "(){}", Call: name + "()", CallInline: name + "()"}
}

func CL(k string) string { mark(k); return V[k] }
func ST(k string) string { mark(k); return V[k] }
func J(k string) string  { mark(k); return V[k] }
func G(k string) int     { mark(k); return len(V[k]) }
