// Package c02oracle holds the expression vocabulary of the C02 correspondence runs: every Go expression in a
// generated template is a call of one of these functions with a key; the value comes from the table V, and the call
// is recorded in Trace. The same file is compiled into the harness (to compute the values the Lean model is given)
// and, copied with `package main`, into each compiled batch of generated templates.
package c02oracle

import (
	"context"
	"errors"
	"io"
	"strconv"
	"strings"

	"github.com/a-h/templ"
)

var V = map[string]string{}
var Trace []string

func mark(k string) { Trace = append(Trace, k) }

func S(k string) string { mark(k); return V[k] }

func SE(k string) (string, error) {
	mark(k)
	if V[k+"!"] != "" {
		return V[k], errors.New("oracle error " + k)
	}
	return V[k], nil
}

func B(k string) bool { mark(k); return V[k] == "1" }

func IT(k string) []string {
	mark(k)
	if V[k] == "" {
		return nil
	}
	return strings.Split(V[k], "|")
}

func N(k string) int { mark(k); n, _ := strconv.Atoi(V[k]); return n }

func U(k string) templ.SafeURL { mark(k); return templ.SafeURL(V[k]) }

func A(k string) templ.Attributes {
	mark(k)
	return AttrsOf(V[k])
}

// AttrsOf parses "name=value,flag,off=!": string values, true booleans, and `!` for false.
func AttrsOf(spec string) templ.Attributes {
	a := templ.Attributes{}
	if spec == "" {
		return a
	}
	for _, p := range strings.Split(spec, ",") {
		if i := strings.IndexByte(p, '='); i >= 0 {
			if p[i+1:] == "!" {
				a[p[:i]] = false
			} else {
				a[p[:i]] = p[i+1:]
			}
		} else {
			a[p] = true
		}
	}
	return a
}

type SegComp struct {
	Segs []string
	Fail bool
}

func (c SegComp) Render(ctx context.Context, w io.Writer) error {
	if c.Fail {
		return errors.New("oracle component error")
	}
	children := templ.GetChildren(ctx)
	ctx = templ.ClearChildren(ctx)
	for i, s := range c.Segs {
		if _, err := io.WriteString(w, s); err != nil {
			return err
		}
		if i < len(c.Segs)-1 {
			if err := children.Render(ctx, w); err != nil {
				return err
			}
		}
	}
	return nil
}

func C(k string) templ.Component {
	mark(k)
	return SegComp{Segs: strings.Split(V[k], "|"), Fail: V[k+"!"] != ""}
}

func H(k string) templ.ComponentScript {
	mark(k)
	return ScriptOf(V[k])
}

func ScriptOf(v string) templ.ComponentScript {
	name := "fn_" + v
	return templ.ComponentScript{Name: name, Function: "function " + name + "(){}", Call: name + "()", CallInline: name + "()"}
}

func CL(k string) string { mark(k); return V[k] }
func ST(k string) string { mark(k); return V[k] }
func J(k string) string  { mark(k); return V[k] }
func G(k string) int     { mark(k); return len(V[k]) }
