package main

import (
	"fmt"
	"os"
	"path/filepath"
	"regexp"
)

// c01OutsideMarkup matches template sources that use a construct outside the markup fragment of the composition
// theorem (Model/Expect.lean: nodesOK): component calls, spread attributes / children, raw-text elements, comments,
// doctype, script handlers. The Lean driver decides membership exactly (and skips the rest); this filter only keeps
// the compiled batch mostly inside the fragment.
var c01OutsideMarkup = regexp.MustCompile(`@|\.\.\.|<script|<style|<textarea|<title|<!|\son[a-z]+=\{|\son[a-z]+=\s|<[A-Z]`)

// c01Compose renders generated templates of the markup fragment through the real generator, compiler and runtime
// with value tables full of markup metacharacters, and hands (tree, environment, rendered bytes) to the driver,
// which checks the composition theorem's statement on the real output: tokenize(out) = Expect.tokens tree env.
func c01Compose(e *emitter, tier string, seed uint64) {
	r := &rng{s: seed*104729 + uint64(e.shard) + 17}
	saved := e.selfSharded
	e.selfSharded = true
	defer func() { e.selfSharded = saved }()
	root := os.Getenv("VERIF_ROOT")
	if root == "" {
		root = "/verif"
	}
	scratch := workDir
	if scratch == "" {
		scratch = filepath.Join(root, ".work", "c01tmp")
	}
	per, nargs := 150, 4
	if tier == "thorough" {
		per, nargs = 400, 8
	}
	var tmpls []*c02Tmpl
	for tries := 0; len(tmpls) < per && tries < per*60; tries++ {
		g := newTgen(r, 3+r.intn(3))
		g.oracle = true
		g.noScript = true
		name := fmt.Sprintf("T%d", len(tmpls))
		src := "templ " + name + "() {\n" + g.body(1, 2+r.intn(5)) + "\n}\n"
		if c01OutsideMarkup.MatchString(src) {
			e.count("compose-candidate-outside-markup")
			continue
		}
		t, ok := c02Accept(name, src)
		if ok {
			if _, inVocab := c02Env(t, map[string]string{}); !inVocab {
				ok = false
			}
		}
		if ok {
			tmpls = append(tmpls, t)
		}
	}
	c02RunBatchOp(e, r, scratch, root, "c01", tmpls, nargs, "compose")
}
