package main

import (
	"context"
	"errors"
	"fmt"
	"io"
	"os"
	"path/filepath"
	"reflect"
	"strings"
	"time"

	"github.com/a-h/templ"
	parser "github.com/a-h/templ/parser/v2"
	templruntime "github.com/a-h/templ/runtime"
	"verif/harness/tmpl"
)

func init() { register("C10", runC10) }

var errInjected = errors.New("injected writer fault")

// faultWriter accepts bytes up to limit (-1 = unlimited); the failing call takes what still fits (short write) or
// nothing (zero write) and returns an error, as the io.Writer contract requires.
type faultWriter struct {
	got    []byte
	limit  int
	zero   bool
	silent bool // breaks the io.Writer contract: the failing call, and every later one, returns no error
}

func (w *faultWriter) Write(p []byte) (int, error) {
	if w.limit < 0 || len(w.got)+len(p) <= w.limit {
		w.got = append(w.got, p...)
		return len(p), nil
	}
	var err error = errInjected
	if w.silent {
		err = nil
	}
	if w.zero {
		return 0, err
	}
	room := w.limit - len(w.got)
	if room < 0 {
		room = 0
	}
	w.got = append(w.got, p[:room]...)
	return room, err
}

// faultStringWriter additionally implements io.StringWriter.
type faultStringWriter struct{ faultWriter }

func (w *faultStringWriter) WriteString(s string) (int, error) { return w.Write([]byte(s)) }

func runC10(e *emitter, tier string, seed uint64) {
	// overlapping renders that share the buffer pools (the concurrent phase of C14): exactness / all-or-nothing must not depend on what other requests do
	defer runC14(e, tier, seed)
	r := &rng{s: seed}
	// 1. runtime.Buffer against the bufio model: small capacities, every fault offset, both fault modes, Write / WriteString / Flush
	doBuf := func(capN int, limit int, zero, sw, silent bool, ops []string) {
		key := fmt.Sprintf("buf %d %d %v %v %v %s", capN, limit, zero, sw, silent, strings.Join(ops, ","))
		if !e.mine(key) {
			return
		}
		old := templruntime.DefaultBufferSize
		templruntime.DefaultBufferSize = capN
		b := &templruntime.Buffer{}
		var fw *faultWriter
		if sw {
			f := &faultStringWriter{faultWriter{limit: limit, zero: zero, silent: silent}}
			fw = &f.faultWriter
			b.Reset(f)
		} else {
			fw = &faultWriter{limit: limit, zero: zero, silent: silent}
			b.Reset(fw)
		}
		templruntime.DefaultBufferSize = old
		var res []string
		runOps := func() {
			for _, op := range ops {
				var err error
				switch op[0] {
				case 'w':
					_, err = b.Write([]byte(unhx(op[2:])))
				case 's':
					_, err = b.WriteString(unhx(op[2:]))
				case 'f':
					err = b.Flush()
				}
				if err != nil {
					res = append(res, "1")
				} else {
					res = append(res, "0")
				}
			}
		}
		got := ""
		if silent {
			// a writer that takes nothing and says nothing can wedge a loop: a hang is an outcome, not a hung check
			done := make(chan struct{})
			go func() { defer close(done); runOps() }()
			select {
			case <-done:
				got = string(fw.got)
			case <-time.After(3 * time.Second):
				res = []string{"hang"}
			}
		} else {
			runOps()
			got = string(fw.got)
		}
		lim := "-"
		if limit >= 0 {
			lim = fmt.Sprint(limit)
		}
		e.emit(key, "buf", fmt.Sprint(capN), lim, fmt.Sprint(zero), fmt.Sprint(sw), fmt.Sprint(silent), strings.Join(ops, ","), hx(got), strings.Join(res, ","))
	}
	chunks := []string{"a", "bc", "defg", "hijklmn", "0123456789ABCDEF", ""}
	nseq := 60
	if tier == "thorough" {
		nseq = 1500
	}
	for i := 0; i < nseq; i++ {
		var ops []string
		total := 0
		for k := 1 + r.intn(6); k > 0; k-- {
			switch r.intn(5) {
			case 0:
				ops = append(ops, "f")
			case 1, 2:
				c := r.pick(chunks)
				ops = append(ops, "w:"+hx(c))
				total += len(c)
			default:
				c := r.pick(chunks)
				ops = append(ops, "s:"+hx(c))
				total += len(c)
			}
		}
		ops = append(ops, "f")
		for _, capN := range []int{1, 3, 4, 8} {
			for limit := -1; limit <= total; limit++ {
				for _, zero := range []bool{false, true} {
					for _, sw := range []bool{true, false} {
						doBuf(capN, limit, zero, sw, false, ops)
						if limit >= 0 {
							doBuf(capN, limit, zero, sw, true, ops)
						}
					}
				}
			}
		}
	}
	c10Renders(e, r, tier)
	c10SilentWriters(e)
}

// silentWriter accepts the first limit bytes and from then on takes nothing (zero) or one byte (short) per call WITHOUT
// returning an error - a writer that breaks the io.Writer contract (a wrapped connection that swallows its error). The
// render must still end, and may return nil only if the writer got the whole document.
type silentWriter struct {
	limit int
	zero  bool
	got   []byte
}

func (w *silentWriter) Write(p []byte) (int, error) {
	room := w.limit - len(w.got)
	if room >= len(p) {
		w.got = append(w.got, p...)
		return len(p), nil
	}
	if room > 0 { // takes what still fits
		w.got = append(w.got, p[:room]...)
		return room, nil
	}
	if w.zero || len(p) == 0 {
		return 0, nil
	}
	w.got = append(w.got, p[0]) // short: one byte per call from the limit on
	return 1, nil
}

type silentStringWriter struct{ silentWriter }

func (w *silentStringWriter) WriteString(s string) (int, error) { return w.Write([]byte(s)) }

func c10SilentWriters(e *emitter) {
	for _, size := range []int{100, 4095, 4096, 5000, 9000} {
		for _, limit := range []int{0, 10, 4096} {
			for _, zero := range []bool{true, false} {
				for _, sw := range []bool{false, true} {
					for _, via := range []string{"buffer-write", "buffer-writestring", "template"} {
						key := fmt.Sprintf("silentw %d %d %v %v %s", size, limit, zero, sw, via)
						if !e.mine(key) {
							continue
						}
						text := strings.Repeat("abcdefghij", size/10+1)[:size]
						var inner *silentWriter
						var w io.Writer
						if sw {
							x := &silentStringWriter{silentWriter{limit: limit, zero: zero}}
							inner, w = &x.silentWriter, x
						} else {
							inner = &silentWriter{limit: limit, zero: zero}
							w = inner
						}
						doc := text
						done := make(chan error, 1)
						go func() {
							defer func() {
								if p := recover(); p != nil {
									done <- fmt.Errorf("panic: %v", p)
								}
							}()
							switch via {
							case "template":
								done <- tmpl.TextSink(text).Render(context.Background(), w)
							default:
								b, _ := templruntime.GetBuffer(w)
								var err error
								if via == "buffer-write" {
									_, err = b.Write([]byte(text))
								} else {
									_, err = b.WriteString(text)
								}
								if rerr := templruntime.ReleaseBuffer(b); err == nil {
									err = rerr
								}
								done <- err
							}
						}()
						outcome := ""
						select {
						case err := <-done:
							outcome = "nil"
							if err != nil {
								outcome = "error"
							}
						case <-time.After(2 * time.Second):
							outcome = "hang" // the goroutine keeps spinning until the process ends
						}
						if via == "template" {
							var sb strings.Builder
							_ = tmpl.TextSink(text).Render(context.Background(), &sb)
							doc = sb.String()
						}
						got := ""
						if outcome != "hang" {
							got = string(inner.got)
						}
						e.emit(key, "silentw", via, fmt.Sprint(size), fmt.Sprint(limit), fmt.Sprint(zero), fmt.Sprint(sw), outcome, b01(got == doc))
					}
				}
			}
		}
	}
}

type c10Comp struct {
	name      string
	mk        func() templ.Component
	exprLines string // 1-based source lines of the failing expression in tmpl/render.templ ("-" if none)
}

// c10ExprLines parses the fixture source with the real parser and returns, for each expression that calls mayFail, the
// 1-based source lines it covers ("34,35,36").
// c10LinesOf: the 1-based source lines of the first expression of tmpl/render.templ that contains sub.
func c10LinesOf(sub string) string {
	root := os.Getenv("VERIF_ROOT")
	if root == "" {
		root = "/verif"
	}
	src, err := os.ReadFile(filepath.Join(root, "harness", "tmpl", "render.templ"))
	if err != nil {
		return "?"
	}
	tf, err := parser.ParseString(string(src))
	if err != nil {
		return "?"
	}
	var exprs []exprRef
	var names []nameRef
	walkTree(reflect.ValueOf(tf), "TemplateFile", &exprs, &names, 0)
	for _, ex := range exprs {
		if strings.Contains(ex.value, sub) {
			var ls []string
			for l := ex.rng.From.Line; l <= ex.rng.To.Line; l++ {
				ls = append(ls, fmt.Sprint(l+1))
			}
			return strings.Join(ls, ",")
		}
	}
	return "?"
}

func c10ExprLines() []string {
	root := os.Getenv("VERIF_ROOT")
	if root == "" {
		root = "/verif"
	}
	src, err := os.ReadFile(filepath.Join(root, "harness", "tmpl", "render.templ"))
	if err != nil {
		return nil
	}
	tf, err := parser.ParseString(string(src))
	if err != nil {
		return nil
	}
	var exprs []exprRef
	var names []nameRef
	walkTree(reflect.ValueOf(tf), "TemplateFile", &exprs, &names, 0)
	var out []string
	for _, ex := range exprs {
		if strings.Contains(ex.value, "mayFail(") {
			var ls []string
			for l := ex.rng.From.Line; l <= ex.rng.To.Line; l++ {
				ls = append(ls, fmt.Sprint(l+1))
			}
			out = append(out, strings.Join(ls, ","))
		}
	}
	return out
}

func c10Components() []c10Comp {
	lines := append(c10ExprLines(), "?", "?", "?")
	return []c10Comp{
		{"leaf", func() templ.Component { return tmpl.Leaf("x & y") }, "-"},
		{"big-40", func() templ.Component { return tmpl.Big(40) }, "-"},
		{"big-400", func() templ.Component { return tmpl.Big(400) }, "-"},
		{"page", func() templ.Component { return tmpl.Page("T <1>", 150) }, "-"},
		{"join", func() templ.Component { return templ.Join(tmpl.Leaf("a"), tmpl.Big(200), tmpl.Leaf("b")) }, "-"},
		{"raw", func() templ.Component { return templ.Raw(strings.Repeat("<x>raw</x>", 700)) }, "-"},
		{"jsonscript", func() templ.Component { return templ.JSONScript("id", strings.Repeat("v", 6000)) }, "-"},
		{"once", func() templ.Component { return templ.NewOnceHandle().Once() }, "-"},
		{"flush", func() templ.Component { return templ.Join(tmpl.Big(150), templ.Flush(), tmpl.Big(150)) }, "-"},
		{"expr-ok", func() templ.Component { return tmpl.FailingExpr("fine", false) }, "-"},
		{"expr-fail", func() templ.Component { return tmpl.FailingExpr("x", true) }, lines[0]},
		{"attr-fail", func() templ.Component { return tmpl.FailingAttr("x", true) }, lines[1]},
		{"nested-fail", func() templ.Component { return tmpl.FailingNested(true) }, "-"},
		{"nested-ok", func() templ.Component { return tmpl.FailingNested(false) }, "-"},
		{"children-to-plain-writer", func() templ.Component { return tmpl.Page("t", 3) }, "-"},
		{"flush-block-expr-fail", func() templ.Component { return tmpl.FailingInFlush("x", true) }, lines[2]},
		{"flush-block-nested-fail", func() templ.Component { return tmpl.FailingNestedInFlush(true) }, "-"},
		{"flush-block-ok", func() templ.Component { return tmpl.FailingInFlush("x", false) }, "-"},
		{"style-fail", func() templ.Component { return tmpl.FailingStyle(true) }, lines[3]},
		{"style-ok", func() templ.Component { return tmpl.FailingStyle(false) }, "-"},
		{"join-generated", func() templ.Component { return templ.Join(tmpl.Leaf("a"), tmpl.Leaf("b")) }, "-"},
		{"legacy-call-fail", func() templ.Component { return tmpl.FailingLegacyCall(true) }, "-"},
		{"legacy-call-ok", func() templ.Component { return tmpl.FailingLegacyCall(false) }, "-"},
		{"script-int-fail", func() templ.Component { return tmpl.FailingScriptInt(true) }, c10LinesOf("failingInt(")},
		{"script-int-ok", func() templ.Component { return tmpl.FailingScriptInt(false) }, "-"},
	}
}

// c10OKVariants: for components that fail by themselves, the same component with the failure switched off.
func c10OKVariants() map[string]func() templ.Component {
	return map[string]func() templ.Component{
		"expr-fail":               func() templ.Component { return tmpl.FailingExpr("x", false) },
		"attr-fail":               func() templ.Component { return tmpl.FailingAttr("x", false) },
		"nested-fail":             func() templ.Component { return tmpl.FailingNested(false) },
		"flush-block-expr-fail":   func() templ.Component { return tmpl.FailingInFlush("x", false) },
		"flush-block-nested-fail": func() templ.Component { return tmpl.FailingNestedInFlush(false) },
		"style-fail":              func() templ.Component { return tmpl.FailingStyle(false) },
		"legacy-call-fail":        func() templ.Component { return tmpl.FailingLegacyCall(false) },
		"script-int-fail":         func() templ.Component { return tmpl.FailingScriptInt(false) },
	}
}

func c10ErrKind(err error) (string, string) {
	switch {
	case err == nil:
		return "nil", "-"
	case errors.Is(err, errInjected):
		return "writer", "-"
	case errors.Is(err, tmpl.ErrExpr):
		var te templ.Error
		if errors.As(err, &te) {
			return "expr", fmt.Sprint(te.Line)
		}
		return "expr-unwrapped", "-"
	case errors.Is(err, tmpl.ErrComponent):
		return "component", "-"
	case errors.Is(err, context.Canceled):
		return "ctx", "-"
	}
	return "other:" + strings.ReplaceAll(err.Error(), " ", "_"), "-"
}

func c10Renders(e *emitter, r *rng, tier string) {
	bg := context.Background()
	for _, c := range c10Components() {
		// the full document (with a healthy writer); for failing components: what is written before the failure
		var full strings.Builder
		errFull := c.mk().Render(bg, &full)
		doc := full.String()
		kind, line := c10ErrKind(errFull)
		e.emit("render "+c.name+" none", "render", c.name, "-", "false", hx(doc), hx(doc), kind, line, c.exprLines)
		// a component that fails by itself: it must report an error and have written a proper prefix of what its
		// non-failing variant writes
		if mkOK, ok := c10OKVariants()[c.name]; ok {
			var okDoc strings.Builder
			_ = mkOK().Render(bg, &okDoc)
			e.emit("selffail "+c.name, "selffail", c.name, hx(okDoc.String()), hx(doc), kind)
		}
		// every fault offset (a stride on big documents in the quick tier), both fault modes, then a healthy render
		stride := 1
		if tier != "thorough" && len(doc) > 600 {
			stride = len(doc)/400 + 1
		}
		for k := 0; k <= len(doc); k += stride {
			for _, zero := range []bool{false, true} {
				fw := &faultStringWriter{faultWriter{limit: k, zero: zero}}
				err := c.mk().Render(bg, fw)
				kind, line := c10ErrKind(err)
				key := fmt.Sprintf("render %s %d %v", c.name, k, zero)
				e.emit(key, "render", c.name, fmt.Sprint(k), fmt.Sprint(zero), hx(doc), hx(string(fw.got)), kind, line, c.exprLines)
				if k%7 == 0 || stride > 1 {
					var after strings.Builder
					err2 := c.mk().Render(bg, &after)
					k2, _ := c10ErrKind(err2)
					if errFull != nil { // the component fails by itself: "after" must equal its own healthy-writer run
						if k2 == kind || true {
							k2 = map[bool]string{true: "nil", false: k2}[after.String() == doc]
						}
					}
					e.emit(key+" after", "after", c.name, hx(doc), hx(after.String()), k2)
				}
			}
		}
		// cancelled context: nothing written
		cctx, cancel := context.WithCancel(bg)
		cancel()
		var cw strings.Builder
		errC := c.mk().Render(cctx, &cw)
		kc, _ := c10ErrKind(errC)
		{
			rep := kc
			if kc == "ctx" && cw.Len() == 0 {
				rep = "nil" // as it should be: the cancellation is reported and nothing was written
			} else if kc == "nil" {
				rep = "returned-nil-although-cancelled"
			}
			e.emit("render "+c.name+" cancelled", "render", c.name+"-cancelled", "-", "false", hx(""), hx(cw.String()), rep, "-", "-")
		}
	}
	// a context cancelled between two joined components: the second reports it, Join passes it on
	{
		cctx, cancel := context.WithCancel(bg)
		canceller := templ.ComponentFunc(func(ctx context.Context, w io.Writer) error { cancel(); return nil })
		var jw strings.Builder
		errJ := templ.Join(tmpl.Leaf("a"), canceller, tmpl.Leaf("b"), tmpl.Leaf("c")).Render(cctx, &jw)
		var first strings.Builder
		_ = tmpl.Leaf("a").Render(bg, &first)
		kj, _ := c10ErrKind(errJ)
		e.emit("render join-cancelled-midway", "render", "join-midway-cancelled", "-", "false", hx(first.String()), hx(jw.String()), map[bool]string{true: "nil", false: map[bool]string{true: "returned-nil-although-cancelled", false: kj}[kj == "nil"]}[kj == "ctx" && jw.String() == first.String()], "-", "-")
	}
	// children rendered into a plain (non-Buffer) writer by a hand-written component must arrive completely
	capture := templ.ComponentFunc(func(ctx context.Context, w io.Writer) error {
		var sb strings.Builder
		if err := templ.GetChildren(ctx).Render(templ.ClearChildren(ctx), &sb); err != nil {
			return err
		}
		_, err := io.WriteString(w, strings.ToUpper(sb.String()))
		return err
	})
	var out strings.Builder
	err := tmpl.CaptureChildren(capture).Render(bg, &out)
	kind, _ := c10ErrKind(err)
	e.emit("render capture", "render", "children-captured", "-", "false", hx("<div><P>HELLO, WORLD</P></div>"), hx(out.String()), kind, "-", "-")
}
