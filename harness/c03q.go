package main

import (
	"strings"

	parser "github.com/a-h/templ/parser/v2"
)

// c03Quote: the parser decides, for each {{ expr }} in a <script>, whether it sits inside a JS string literal.
// Generate scripts from fragments (string literals of the three kinds with escapes and LF / CRLF line
// continuations, comments, ordinary code — no regex literals, no ${...}), parse them with the REAL parser and
// hand (script text with markers, flags) to the driver, which compares with the JS lexer specification.
func c03Quote(e *emitter, r *rng, n int) {
	const marker = "{{ v }}"
	frags := []string{
		"var a = ", "f(", ")", ";", " ", "\n", "\r\n", "x", "1+2", "// line ' comment \" `\n", "/* block ' \" ` */", "/* multi\nline */",
		"'s'", "\"d\"", "`t`", "'a\\'b'", "\"a\\\"b\"", "`a\\`b`", "'\\\\'", "\"\\\\\"", "'it\\'s \"q\" `b`'", "\"say 'hi' `b`\"", "`both ' \"`",
		"'line \\\ncont'", "\"line \\\ncont\"", "'line \\\r\ncont'", "\"line \\\r\ncont\"", "`multi\nline`", "`multi\r\nline`", "'a/*b'", "\"a//b\"", "`a//b`",
		"a / b", "a /* c */ / b", "'\\u0027'", "'\\x27'",
		// constructs templ's parser does not track (the specification does): regular-expression literals,
		// template-literal substitutions, HTML-like comments
		"var r = /'/;", "x = /\"/g;", "m(/[`'/]/)", "y = a / b / c;", "z = (1) / 2 / 3;", "`a ${ b } c`", "`a ${ f('x') } c`", "`${ `q` }`", "`p ${ {a:1}.a } q`",
		"<!-- ' html comment\n", "`a ${ ",  " } b`",
	}
	// openers leave a literal open so that the marker that follows is inside it; closers close it again
	openers := []struct{ open, mid, close string }{
		{"'", "abc", "'"}, {"\"", "abc", "\""}, {"`", "abc", "`"}, {"'", "a\\'b ", "'"}, {"\"", "a\\\"b ", "\""}, {"`", "a\\`b ", "`"},
		{"'", "l1 \\\n", "'"}, {"\"", "l1 \\\n", "\""}, {"'", "l1 \\\r\n", "'"}, {"\"", "l1 \\\r\n", "\""}, {"`", "l1\n", "`"}, {"`", "l1\r\n", "`"},
		{"'", "\\\\", "'"}, {"\"", "\\\\", "\""}, {"'", "\"`", "'"}, {"\"", "'`", "\""}, {"`", "'\"", "`"}, {"'", "/*", "'"}, {"\"", "//", "\""},
	}
	// witnesses (reported on the unchanged tree): a quote inside a regular expression, a value inside ${ … }, a quote in an HTML-like comment
	seeds := []string{"var r = /'/; var x = " + marker + ";", "var s = `a ${ " + marker + " } b`;", "var s = `a ${ f('x') } " + marker + " b`;", "var x = <!-- ' \n " + marker}
	for i := 0; i < n+len(seeds); i++ {
		var sb strings.Builder
		if i < len(seeds) {
			sb.WriteString(seeds[i])
		}
		for k := 2 + r.intn(8); k > 0 && i >= len(seeds); k-- {
			switch r.intn(5) {
			case 0:
				sb.WriteString(marker) // outside any literal
			case 1, 2:
				o := openers[r.intn(len(openers))]
				sb.WriteString(o.open + o.mid + marker)
				if r.chance(1, 3) {
					sb.WriteString(o.mid + marker)
				}
				sb.WriteString(o.close)
			default:
				sb.WriteString(r.pick(frags))
			}
			if r.chance(1, 4) {
				sb.WriteString(r.pick([]string{";", "\n", " + ", ", ", "\r\n"}))
			}
		}
		script := sb.String()
		if strings.Contains(script, "</") {
			continue
		}
		if !e.mine("quote " + script) {
			continue
		}
		src := "package x\n\ntempl T(v string) {\n<script>" + script + "</script>\n}\n"
		// what was parsed before must not matter: every third script is preceded by a file whose parse stops with an
		// error in the middle of a JS string literal (as happens all the time in an editor or in watch mode)
		if len(script)%3 == 0 {
			for _, bad := range []string{"'Hello, {{ name }'", "\"x {{ f( }\"", "`a {{ b }`"} {
				_, _ = parser.ParseString("package x\n\ntempl B(name string) {\n<script>var s = " + bad + ";</script>\n}\n")
			}
		}
		tf, err := parser.ParseString(src)
		if err != nil {
			e.count("quote-parse-error")
			continue
		}
		flags := ""
		found := false
		for _, n := range tf.Nodes {
			ht, ok := n.(parser.HTMLTemplate)
			if !ok {
				continue
			}
			for _, c := range ht.Children {
				se, ok := c.(parser.ScriptElement)
				if !ok {
					continue
				}
				found = true
				for _, sc := range se.Contents {
					if sc.GoCode != nil {
						if sc.InsideStringLiteral {
							flags += "1"
						} else {
							flags += "0"
						}
					}
				}
			}
		}
		if !found {
			continue
		}
		if flags == "" {
			flags = "-"
		}
		e.emit("quote "+script, "quote", hx(script), flags)
	}
}
