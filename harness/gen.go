package main

import (
	"bytes"

	"github.com/a-h/templ/generator"
	parser "github.com/a-h/templ/parser/v2"
)

// generateGo runs the real parser and generator on templ source text.
func generateGo(src string) (string, error) {
	tf, err := parser.ParseString(src)
	if err != nil {
		return "", err
	}
	var buf bytes.Buffer
	if _, err = generator.Generate(tf, &buf, generator.WithFileName("x.templ")); err != nil {
		return "", err
	}
	return buf.String(), nil
}
