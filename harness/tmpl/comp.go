package tmpl

import (
	"context"
	"io"

	"github.com/a-h/templ"
)

var ErrComponent = errorString("component failed")

func mayFailComponent(fail bool) templ.Component {
	return templ.ComponentFunc(func(ctx context.Context, w io.Writer) error {
		if _, err := io.WriteString(w, "<u>hand</u>"); err != nil {
			return err
		}
		if fail {
			return ErrComponent
		}
		return nil
	})
}
