package tmpl

import "github.com/a-h/templ"

// DynCSS returns the css component for one of the fixture properties.
func DynCSS(prop, v string) templ.CSSClass {
	switch prop {
	case "color":
		return dynColor(v)
	case "display":
		return dynDisplay(v)
	case "font-family":
		return dynFont(v)
	case "background-image":
		return dynBg(v)
	default:
		return dynMargin(v)
	}
}
