package tmpl

func idErr(s string) (string, error) { return s, nil }
