package tmpl

func idErr(s string) (string, error) { return s, nil }

func rowText(i int) string { return "row " + string(rune('a'+i%26)) + " & <" }

var ErrExpr = errorString("expression failed")

type errorString string

func (e errorString) Error() string { return string(e) }

func mayFail(s string, fail bool) (string, error) {
	if fail {
		return "", ErrExpr
	}
	return s, nil
}

func failingInt(fail bool) (int, error) {
	if fail {
		return 7, ErrExpr
	}
	return 7, nil
}

func failingBool(fail bool) (bool, error) {
	if fail {
		return true, ErrExpr
	}
	return true, nil
}
