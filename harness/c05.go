package main

import (
	"context"
	"net/url"
	"strings"

	"github.com/a-h/templ"
	templruntime "github.com/a-h/templ/runtime"
	"github.com/a-h/templ/safehtml"
	"verif/harness/tmpl"
)

func init() { register("C05", runC05) }

// c05Oracle answers, for every url() body the sanitiser could hand to net/url.Parse for this value, whether
// url.Parse accepts it (the model treats url.Parse as a parameter). It is a superset: every comma part, trimmed,
// with every prefix/suffix pair that matches.
func c05Oracle(v string) string {
	pre := []string{`url("`, `url('`, `url(`}
	suf := []string{`")`, `')`, `)`}
	seen := map[string]bool{}
	var parts []string
	var cands []string
	for _, u := range strings.Split(v, ",") {
		cands = append(cands, strings.TrimSpace(u), strings.Trim(u, " \t\n\r\f"), u)
	}
	for _, u := range cands {
		for i := range pre {
			if strings.HasPrefix(u, pre[i]) && strings.HasSuffix(u, suf[i]) {
				b := strings.TrimSuffix(strings.TrimPrefix(u, pre[i]), suf[i])
				if !seen[b] {
					seen[b] = true
					_, err := url.Parse(b)
					bit := "0"
					if err == nil {
						bit = "1"
					}
					parts = append(parts, hx(b)+"="+bit)
				}
			}
		}
	}
	if len(parts) == 0 {
		return "-"
	}
	return strings.Join(parts, ",")
}

type c05NamedMap map[string]string
type c05Str string
type c05Form struct {
	name string
	val  any
}

func c05Forms(p, v string) []c05Form {
	return []c05Form{
		{"named-map", c05NamedMap{p: v}},
		{"map-named-value", map[string]c05Str{p: c05Str(v)}},
		{"map-named-key", map[c05Str]string{c05Str(p): v}},
		{"slice-of-map", []any{map[string]string{p: v}}},
		{"slice-of-named-map", []c05NamedMap{{p: v}}},
		{"func-map", func() any { return map[string]string{p: v} }},
		{"func-named-map", func() c05NamedMap { return c05NamedMap{p: v} }},
		{"slice-of-kv", []templ.KeyValue[string, string]{templ.KV(p, v)}},
		{"pointer-to-map", &map[string]string{p: v}},
		{"kv-named", templ.KV(c05Str(p), c05Str(v))},
	}
}

func fnv32(s string) uint32 {
	h := uint32(2166136261)
	for i := 0; i < len(s); i++ {
		h = (h ^ uint32(s[i])) * 16777619
	}
	return h
}

func runC05(e *emitter, tier string, seed uint64) {
	bg := context.Background()
	doCSS := func(p, v string) {
		k := "css " + p + "\x00" + v
		if !e.mine(k) {
			return
		}
		// history: the same property and text first as a value the caller vouches for (emitted as it is), then as a plain
		// string - what an earlier call was given must not decide what this one returns
		_ = templ.SanitizeCSS(p, templ.SafeCSSProperty(v))
		ip, iv := safehtml.SanitizeCSS(p, v)
		tc := string(templ.SanitizeCSS(p, v))
		m, err1 := templruntime.SanitizeStyleAttributeValues(map[string]string{p: v})
		kv, err2 := templruntime.SanitizeStyleAttributeValues(templ.KV(p, v))
		if err1 != nil || err2 != nil {
			m, kv = "ERR", "ERR"
		}
		e.emit(k, "css", hx(p), hx(v), hx(ip), hx(iv), hx(tc), hx(m), hx(kv), c05Oracle(v))
		// the same pair in every other container form SanitizeStyleAttributeValues may come to accept: sanitised like the
		// plain map, or refused as unsupported - never passed through
		if fnv32(k)%4 == 0 {
			for _, f := range c05Forms(p, v) {
				out, ferr := templruntime.SanitizeStyleAttributeValues(f.val)
				o := hx(out)
				if ferr != nil {
					o = "ERR"
				}
				e.emit("cssform "+f.name+" "+p+"\x00"+v, "cssform", f.name, hx(p), hx(v), hx(ip), hx(iv), o)
			}
		}
		// end to end: the same pair in a style attribute of a generated template, as the browser gets it
		if err1 == nil {
			doc := render(tmpl.StyleSink(map[string]string{p: v}), bg)
			e.emit("cssattr "+p+"\x00"+v, "cssattr", hx(p), hx(v), hx(ip), hx(iv), hx(doc))
		}
	}
	doComp := func(p, v string) {
		k := "cssc " + p + "\x00" + v
		if !e.mine(k) {
			return
		}
		doc := render(tmpl.CSSComponentSink(tmpl.DynCSS(p, v)), bg)
		e.emit(k, "cssc", hx(p), hx(v), hx(doc), c05Oracle(v))
	}
	for _, f := range e.corpusLines() {
		if len(f) >= 4 && f[0] == "C05" && f[1] == "css" {
			doCSS(unhx(f[2]), unhx(f[3]))
		}
		if len(f) >= 4 && f[0] == "C05" && f[1] == "cssc" {
			doComp(unhx(f[2]), unhx(f[3]))
		}
	}
	if e.onlyCorpus {
		return
	}
	props := []string{"background-image", "font-family", "display", "color", "margin", "Color", "z-index", "co lor", "", "x;y", "-", "a{b", "width"}
	compProps := []string{"color", "display", "font-family", "background-image", "margin"}
	alphabet := []string{";", ":", "{", "}", "(", ")", "\"", "'", "\\", "/", "*", "<", ">", ",", "@", "a", "u", "r", "l", "-", " ", "\n"}
	n := 3
	if tier == "thorough" {
		n = 4
	}
	classProps := []string{"background-image", "font-family", "display", "color", "margin", "x;y"}
	enumerate(alphabet, n, func(v string) {
		for _, p := range classProps {
			doCSS(p, v)
		}
	})
	shapes := []string{
		"var(--x)", "var(--x,red)", "var(--x, red)", "var(--x,</style><script src=//evil.example/x.js></script>)", "var(--x,red;}body{display:none;}a{color:blue)",
		"var(--x,@import 'x';)", "var(--x,/*)", "1px var(--gap,2px)", "calc(var(--a,1px) + 2px)", "env(safe-area-inset-top)", "attr(data-x)", "min(1px,2px)",
		"red", "#fff", "10px", "1px solid red", "rgb(1,2,3)", "calc(1px + 2px)", "expression(alert(1))", "red;color:blue", "red}body{color:blue",
		"red/*x*/", "red//x", "a/b", "a*b", "*", "/", "url(/a.png)", "url(\"/a.png\")", "url('/a.png')", "url( /a.png )", "url(javascript:alert(1))",
		"url(JaVaScRiPt:alert(1))", "url(\"javascript:alert(1)\")", "url(data:text/html,x)", "url(http://h/p)", "url(HTTPS://h/p)", "url(mailto:a@b)",
		"url(//h/p)", "url(ftp://h)", "url(/a);color:red;x:url(b)", "url(/a)}body{x:url(b)", "url(/a),url(/b)", "url(/a) , url(\"/b\")", "url(/a), red",
		"url(/a\\29 )", "url(/a b)", "url(/a\")", "url(\")", "url()", "url(", "url", "URL(/a)", "url(%zz)", "url(http://[::1]:namedport)", "url(http://a:b)",
		"url(javascript:/%zz)", "url(\"javascript:/%zz\")", "url('vbscript:/%')", "url(/ok.png), url(data:/%x)", "url(javascript:/%/-alert`1`)", "url(/img/100%.png)", "url(x:/%)", "url(/a%2)", "url(http://h/%)",
		"url(a:b)", "url(:a)", "url(#a:b)", "url(#\x01)", "url(/a#b\x7f)", "url(#\x01),url(/b)", "url(http://h/#\x0b)", "url(#a\x01)x", "url(/a#\x1f);color:red", "url(?a:b)", "url(a/b:c)", "url(\x01)", "url(/a\x7f)", "url(/a<)", "url(/a>)", "url(1a:b)", "url(a+b-c.d:e)",
		"Arial", "Times New Roman", "sans-serif", "\"Helvetica Neue\"", "\"a\", Arial", "Arial, \"b c\"", "\"", "\"\"", "\"x\"; color: red; \"y\"",
		"\"</style><script>alert(1)</script>\"", "\"a\\\"\"", "\"a\nb\"", "\"a;b\"", "\"a}b\"", "'Arial'", "Arial;", "A", "a1", "-a", "Arial,", ",", " Arial ",
		" Arial ", "\"a\"　", "block", "inline-block", "none!", "BLOCK", "-", "", "flex;", "a b",
		"</style>", "<!--", "@import 'x'", "!important", "red !important", "\\72 ed", "\\", "re\\d", "1e3", "+.5", "a,b", "a\tb", "é", "\xff", "a\x00b",
	}
	for _, p := range props {
		for _, v := range shapes {
			doCSS(p, v)
		}
	}
	for _, p := range compProps {
		for _, v := range shapes {
			doComp(p, v)
		}
	}
	r := &rng{s: seed}
	nr := 6000
	if tier == "thorough" {
		nr = 150000
	}
	for i := 0; i < nr; i++ {
		var sb strings.Builder
		for k := r.intn(5); k >= 0; k-- {
			switch r.intn(4) {
			case 0:
				sb.WriteString(r.pick(shapes))
			case 1:
				sb.WriteString("url(" + r.pick([]string{"", "\"", "'"}) + r.pick([]string{"", "http:", "javascript:", "/", "//h/", " ", "data:"}) + r.pick(alphabet) + r.pick([]string{"", "\"", "'"}) + ")")
			case 2:
				sb.WriteString("\"" + r.pick(alphabet) + r.pick(alphabet) + "\"")
			default:
				sb.WriteString(r.pick(alphabet))
			}
			if r.chance(1, 3) {
				sb.WriteString(r.pick([]string{",", ", ", " ,"}))
			}
		}
		v := sb.String()
		p := r.pick(props)
		doCSS(p, v)
		if i%3 == 0 {
			doComp(r.pick(compProps), v)
		}
	}
}
