package main

import (
	"html/template"
	"context"
	"errors"
	"fmt"
	"io"
	"net/http"
	"net/http/httptest"
	"strings"

	"github.com/a-h/templ"
)

func init() { register("C11", runC11) }

type c11EH struct {
	ct     string // "" = does not set
	status int    // 0 = does not call WriteHeader
	body   string
}

func runC11(e *emitter, tier string, seed uint64) {
	// overlapping renders that share the buffer pools (the concurrent phase of C14): exactness / all-or-nothing must not depend on what other requests do
	defer runC14(e, tier, seed)
	errKinds := map[string]error{
		"plain":      errors.New("boom"),
		"canceled":   context.Canceled,
		"wrapped":    fmt.Errorf("downstream: %w", context.Canceled),
		"deadline":   context.DeadlineExceeded,
		"templerror": templ.Error{Err: errors.New("expr failed"), FileName: "x.templ", Line: 3, Col: 7},
		"eof":        io.EOF,
		"pipe":       io.ErrClosedPipe,
	}
	kinds := []string{"plain", "canceled", "wrapped", "deadline", "templerror", "eof", "pipe"}
	chunkSets := [][]string{
		{}, {"<p>a</p>"}, {"<p>chunk 0</p>", "<p>chunk 1</p>"}, {"a", "b", "c", "d"}, {strings.Repeat("x", 5000)}, {strings.Repeat("y", 4096), "z"},
		{strings.Repeat("é", 40000), "tail"}, {""},
	}
	ehs := []*c11EH{nil, {"", 0, "custom error body"}, {"", 400, "bad"}, {"application/problem+json", 503, "{}"}, {"", 0, ""}, {"text/x", 0, "only ct and body"}, {"", 418, ""}}
	statuses := []int{0, 201, 404, 200}
	cts := []string{"text/html; charset=utf-8", "application/x-custom", "text/event-stream", "Text/Event-Stream; charset=utf-8"}
	run := func(status int, ct string, eh *c11EH, stream bool, chunks []string, fail bool, kind string) {
		ehS := "-"
		if eh != nil {
			ehS = fmt.Sprintf("%s:%d:%s", hx(eh.ct), eh.status, hx(eh.body))
		}
		written := strings.Join(chunks, "")
		key := fmt.Sprintf("%d %s %s %v %s %v %s", status, ct, ehS, stream, written, fail, kind)
		if !e.mine(key) {
			return
		}
		var comp templ.Component = templ.ComponentFunc(func(ctx context.Context, w io.Writer) error {
			for _, c := range chunks {
				if _, err := io.WriteString(w, c); err != nil {
					return err
				}
			}
			if fail && kind == "panic-string" {
				panic("component gave up: " + fmt.Sprint(len(chunks)))
			}
			if fail {
				return errKinds[kind]
			}
			return nil
		})
		if kind == "gohtml" {
			// an html/template whose execution fails after it has written the chunks
			hs := make([]template.HTML, len(chunks))
			for i, c := range chunks {
				hs[i] = template.HTML(c)
			}
			tpl := template.Must(template.New("t").Funcs(template.FuncMap{"failnow": func() (string, error) { return "", errors.New("template function failed") }}).
				Parse(`{{range .Chunks}}{{.}}{{end}}{{if .Fail}}{{failnow}}{{end}}`))
			comp = templ.FromGoHTML(tpl, map[string]any{"Chunks": hs, "Fail": fail})
		}
		opts := []func(*templ.ComponentHandler){templ.WithContentType(ct)}
		if status != 0 {
			opts = append(opts, templ.WithStatus(status))
		}
		if eh != nil {
			h := eh
			opts = append(opts, templ.WithErrorHandler(func(r *http.Request, err error) http.Handler {
				return http.HandlerFunc(func(w http.ResponseWriter, r *http.Request) {
					if h.ct != "" {
						w.Header().Set("Content-Type", h.ct)
					}
					if h.status != 0 {
						w.WriteHeader(h.status)
					}
					if h.body != "" || h.status == 0 && h.body == "" && false {
						io.WriteString(w, h.body)
					}
				})
			}))
		}
		if stream {
			opts = append(opts, templ.WithStreaming())
		}
		// what happened before must not matter: a fragment conversion that failed half way (it shares the buffer pool)
		if len(key)%3 == 0 {
			_, _ = templ.ToGoHTML(context.Background(), templ.ComponentFunc(func(ctx context.Context, w io.Writer) error {
				io.WriteString(w, "<li>draft that failed</li>")
				return errors.New("conversion failed")
			}))
		}
		rec := httptest.NewRecorder()
		panicked, _ := safely(func() { templ.Handler(comp, opts...).ServeHTTP(rec, httptest.NewRequest("GET", "/", nil)) })
		if panicked {
			// the panic reaches the server, which aborts the connection: what the recorder holds was never sent
			rec = httptest.NewRecorder()
			rec.Code = 0
		}
		f := "0"
		if fail {
			f = "1"
		}
		s := "0"
		if stream {
			s = "1"
		}
		e.emit(key, "serve", fmt.Sprint(status), hx(ct), ehS, s, hx(written), f, kind,
			fmt.Sprint(rec.Code), hx(rec.Result().Header.Get("Content-Type")), hx(rec.Body.String()), hx(rec.Header().Get("Content-Length")))
	}
	for _, st := range statuses {
		for _, ct := range cts {
			for _, eh := range ehs {
				for _, stream := range []bool{false, true} {
					for _, ch := range chunkSets {
						run(st, ct, eh, stream, ch, false, "-")
						for _, k := range kinds {
							if tier != "thorough" && k != "plain" && k != "wrapped" && len(ch) > 2 {
								continue
							}
							run(st, ct, eh, stream, ch, true, k)
						}
					}
				}
			}
		}
	}
	// a component that is an html/template failing half way, and a component that panics with a value that is not an error
	for _, st := range []int{0, 201} {
		for _, eh := range []*c11EH{nil, ehs[2]} {
			for k := 0; k <= 3; k++ {
				ch := make([]string, k)
				for i := range ch {
					ch[i] = fmt.Sprintf("<li>row-%d</li>", i)
				}
				run(st, cts[0], eh, false, ch, true, "gohtml")
				run(st, cts[0], eh, false, ch, false, "gohtml")
				run(st, cts[0], eh, false, ch, true, "panic-string")
			}
		}
	}
	// very large documents (beyond any buffer size a handler might cap at): 64 KiB chunks, failing after 1, 2.5 and 5 MiB
	for _, kib := range []int{1088, 2560, 5120} {
		ch := make([]string, kib/64)
		for i := range ch {
			ch[i] = strings.Repeat(string(rune('a'+i%26)), 64<<10)
		}
		run(201, cts[1], nil, false, ch, true, "plain")
		run(0, cts[0], ehs[2], false, ch, true, "wrapped")
		run(201, cts[0], nil, false, ch, false, "-")
	}
	// k chunks then fail, for every k up to a bound
	maxK := 40
	if tier == "thorough" {
		maxK = 400
	}
	for k := 0; k <= maxK; k++ {
		ch := make([]string, k)
		for i := range ch {
			ch[i] = fmt.Sprintf("<p>chunk %d</p>", i)
		}
		run(201, cts[0], nil, false, ch, true, "plain")
		run(0, cts[0], ehs[2], false, ch, true, "wrapped")
		run(201, cts[0], ehs[2], false, ch, true, "canceled")
	}
}
