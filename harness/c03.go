package main

import (
	"math"
	"context"
	"encoding/json"
	"fmt"
	"sort"
	"strings"

	"github.com/a-h/templ"
	templruntime "github.com/a-h/templ/runtime"
	"verif/harness/tmpl"
)

func init() { register("C03", runC03) }

// encJ serialises a Go value (nil, bool, number, string, []any, map[string]any) in the prefix format the
// driver parses into its JVal type; numbers travel as the text encoding/json prints.
func encJ(v any) string {
	switch x := v.(type) {
	case nil:
		return "n"
	case bool:
		if x {
			return "t"
		}
		return "f"
	case string:
		return "s" + hx(x) + ";"
	case []any:
		s := fmt.Sprintf("a%d;", len(x))
		for _, e := range x {
			s += encJ(e)
		}
		return s
	case map[string]any:
		keys := make([]string, 0, len(x))
		for k := range x {
			keys = append(keys, k)
		}
		sort.Strings(keys)
		s := fmt.Sprintf("o%d;", len(x))
		for _, k := range keys {
			s += hx(k) + ";" + encJ(x[k])
		}
		return s
	default:
		b, _ := json.Marshal(x)
		return "#" + hx(string(b)) + ";"
	}
}

func c03RandVal(r *rng, strs []string, depth int) any {
	switch k := r.intn(10); {
	case k < 4 || depth <= 0:
		return r.pick(strs)
	case k == 4:
		return []any{nil, true, false, r.intn(1000) - 500, float64(r.intn(1000)) / 8, 1e21, -0.5}[r.intn(7)]
	case k < 8:
		n := r.intn(4)
		a := make([]any, n)
		for i := range a {
			a[i] = c03RandVal(r, strs, depth-1)
		}
		return a
	default:
		n := r.intn(4)
		m := map[string]any{}
		for i := 0; i < n; i++ {
			m[r.pick(strs)] = c03RandVal(r, strs, depth-1)
		}
		return m
	}
}

func runC03(e *emitter, tier string, seed uint64) {
	bg := context.Background()
	doRepl := func(s string) {
		if !e.mine("repl " + s) {
			return
		}
		out, err := templruntime.ScriptContentInsideStringLiteral(s)
		if err != nil {
			out = "ERR"
		}
		e.emit("repl "+s, "repl", hx(s), hx(out))
	}
	doJSONStr := func(s string) {
		if !e.mine("jsonstr " + s) {
			return
		}
		b, _ := json.Marshal(s)
		e.emit("jsonstr "+s, "jsonstr", hx(s), hx(string(b)))
	}
	doSC := func(v any) {
		k := encJ(v)
		if !e.mine("sc " + k) {
			return
		}
		in, err1 := templruntime.ScriptContentInsideStringLiteral(v)
		out, err2 := templruntime.ScriptContentOutsideStringLiteral(v)
		if err1 != nil || err2 != nil {
			return
		}
		e.emit("sc "+k, "sc", k, hx(in), hx(out))
	}
	doSafe := func(fn string, params []any) {
		enc := fmt.Sprintf("%d;", len(params))
		for _, p := range params {
			if je, ok := p.(templ.JSExpression); ok {
				enc += "e" + hx(string(je)) + ";"
			} else if _, jerr := json.Marshal(p); jerr != nil {
				// a value encoding/json cannot encode contributes nothing (an empty argument): to the model it is an empty expression
				enc += "e;"
			} else {
				enc += "v" + encJ(p)
			}
		}
		k := "safe " + fn + " " + enc
		if !e.mine(k) {
			return
		}
		e.emit(k, "safe", hx(fn), enc, hx(templ.SafeScript(fn, params...)), hx(templ.SafeScriptInline(fn, params...)))
	}
	type pos struct {
		name string
		mk   func(s string) templ.Component
	}
	positions := []pos{
		{"bare", func(s string) templ.Component { return tmpl.ScriptBare(s) }},
		{"single", func(s string) templ.Component { return tmpl.ScriptSingle(s) }},
		{"double", func(s string) templ.Component { return tmpl.ScriptDouble(s) }},
		{"backtick", func(s string) templ.Component { return tmpl.ScriptBacktick(s) }},
		{"backtick-dollar", func(s string) templ.Component { return tmpl.ScriptBacktickDollar(s) }},
		{"onclick", func(s string) templ.Component { return tmpl.OnClick(s, []any{s, 1}) }},
		{"scriptcall", func(s string) templ.Component { return tmpl.ScriptCall(s, map[string]any{"k": s}) }},
		{"jsfunc-on", func(s string) templ.Component { return tmpl.JSFuncOn("console.log", s) }},
		{"jsfunc-inline", func(s string) templ.Component { return tmpl.JSFuncInline("console.log", s) }},
		{"jsfunc-name-on", func(s string) templ.Component { return tmpl.JSFuncOn(s, "x") }},
		{"jsfunc-name-inline", func(s string) templ.Component { return tmpl.JSFuncInline(s, "x") }},
		{"jsonscript", func(s string) templ.Component { return templ.JSONScript("id", map[string]any{"v": s, s: []any{s}}) }},
		// other script types share the body encoding
		{"jsonscript-ld", func(s string) templ.Component {
			return templ.JSONScript("id", map[string]any{"v": s, s: []any{s}}).WithType("application/ld+json")
		}},
		{"jsonscript-importmap", func(s string) templ.Component { return templ.JSONScript("id", []any{s}).WithType("importmap") }},
		// history: the same function was called before with the same text as a JavaScript EXPRESSION; a Go string must still arrive as data
		{"jsfunc-on-after-expr", func(s string) templ.Component {
			_ = render(tmpl.JSFuncOn("console.log", templ.JSExpression(s)), bg)
			return tmpl.JSFuncOn("console.log", s)
		}},
		{"jsfunc-inline-after-expr", func(s string) templ.Component {
			_ = render(tmpl.JSFuncInline("console.log", templ.JSExpression(s)), bg)
			return tmpl.JSFuncInline("console.log", s)
		}},
	}
	// the same expression text in several positions of ONE script element: each occurrence is encoded for its own
	// position, i.e. the element is the concatenation of what the single-position fixtures render
	doTwice := func(s string) {
		k := "postwice " + s
		if !e.mine(k) {
			return
		}
		piece := func(c templ.Component, pre, suf string) string {
			d := render(c, bg)
			return strings.TrimSuffix(strings.TrimPrefix(d, pre), suf)
		}
		bare := piece(tmpl.ScriptBare(s), "<script>const x = ", ";</script>")
		single := piece(tmpl.ScriptSingle(s), "<script>const x = '", "';</script>")
		double := piece(tmpl.ScriptDouble(s), "<script>const x = \"", "\";</script>")
		back := piece(tmpl.ScriptBacktick(s), "<script>const x = `", "`;</script>")
		want1 := "<script>const a = " + bare + "; const b = '" + single + "'; const c = \"" + double + "\"; const d = `" + back + "`; const e = " + bare + ";</script>"
		want2 := "<script>const b = '" + single + "'; const a = " + bare + "; const c = \"" + double + "\";</script>"
		e.emit(k, "postwice", hx(s), hx(render(tmpl.ScriptTwiceBareFirst(s), bg)), hx(want1), hx(render(tmpl.ScriptTwiceQuotedFirst(s), bg)), hx(want2))
	}
	posByName := map[string]pos{}
	for _, p := range positions {
		posByName[p.name] = p
	}
	doPos := func(p pos, s string) {
		k := "pos " + p.name + " " + s
		if !e.mine(k) {
			return
		}
		e.emit(k, "pos", p.name, hx(s), hx(render(p.mk(s), bg)))
	}
	for _, f := range e.corpusLines() {
		if len(f) >= 3 && f[0] == "C03" {
			switch f[1] {
			case "repl":
				doRepl(unhx(f[2]))
			case "jsonstr":
				doJSONStr(unhx(f[2]))
			case "pos":
				if p, ok := posByName[f[2]]; ok && len(f) >= 4 {
					doPos(p, unhx(f[3]))
				}
			}
		}
	}
	if e.onlyCorpus {
		return
	}
	alphabet := []string{"'", "\"", "`", "\\", "/", "<", ">", "&", "$", "{", "}", "+", "-", "!", "\n", "\r", "\x00", " ", "é", "\xff", "a", "s", "c", "r", "i", "p", "t"}
	n := 3
	if tier == "thorough" {
		n = 4
	}
	enumerate(alphabet, n, func(s string) { doRepl(s); doJSONStr(s) })
	adversarial := []string{
		"</script>", "</SCRIPT >", "<!--", "-->", "${alert(1)}", "`+alert(1)+`", "';alert(1);//", "\";alert(1);//", "\\", "\\'", "\\\"", "\\`",
		"\n", "\r\n", " ", " ", "\x00", "\x7f", "\x1f", "\b\f\v\t", "é", "日本", "😀", "\xff", "\xe2\x82", "\xed\xa0\x80", "]]>", "&quot;", "&#34;",
		"x", "", "a b", "$", "${", "$ {", "{", "}", "\\u0027", "\\x27", "+", "/", "//", "/*", "*/", "<script>", "<", ">", "&", "'", "\"", "`",
		"console.log", "alert", "a.b.c", "$x", "_y", "a", "a.", "a..b", "1a", "a b", "a(1)", "a;b", "x\"y", "window['x']", "ab.", "ab.c", "ab.cd.",
		strings.Repeat("'\"`\\", 30),
	}
	for _, s := range adversarial {
		doRepl(s)
		doJSONStr(s)
	}
	short := []string{"'", "\"", "`", "\\", "<", "/", "$", "{", "\n", "\x00", "a", "\xff", "&", "é"}
	var shorts []string
	sl := 2
	if tier == "thorough" {
		sl = 3
	}
	enumerate(short, sl, func(s string) { shorts = append(shorts, s) })
	for _, p := range positions {
		for _, s := range adversarial {
			doPos(p, s)
		}
		for _, s := range shorts {
			doPos(p, s)
		}
	}
	for _, s := range adversarial {
		doTwice(s)
	}
	for _, s := range shorts {
		doTwice(s)
	}
	r := &rng{s: seed}
	nr := 3000
	if tier == "thorough" {
		nr = 80000
	}
	for i := 0; i < nr; i++ {
		var sb strings.Builder
		for k := r.intn(16); k >= 0; k-- {
			if r.chance(1, 4) {
				sb.WriteString(r.pick(adversarial))
			} else {
				sb.WriteString(r.pick(alphabet))
			}
		}
		s := sb.String()
		doRepl(s)
		doJSONStr(s)
		doPos(positions[r.intn(len(positions))], s)
		v := c03RandVal(r, append(adversarial, s), 3)
		doSC(v)
		np := r.intn(4)
		ps := make([]any, np)
		for j := range ps {
			if r.chance(1, 6) {
				ps[j] = templ.JSExpression(r.pick([]string{"event", "this", "1+1", "a\"b", "x<y"}))
			} else if r.chance(1, 8) {
				// values encoding/json refuses, carrying an adversarial string
				a := r.pick(adversarial)
				switch r.intn(5) {
				case 0:
					ps[j] = struct {
						S string
						F float64
					}{a, math.NaN()}
				case 1:
					ps[j] = map[string]any{"k": a, "c": make(chan int)}
				case 2:
					ps[j] = []any{a, math.Inf(1)}
				case 3:
					ps[j] = c03BadJSON(a)
				default:
					ps[j] = map[bool]string{true: a}
				}
			} else {
				ps[j] = c03RandVal(r, append(adversarial, s), 2)
			}
		}
		fn := r.pick(adversarial)
		doSafe(fn, ps)
	}
	for _, s := range adversarial {
		c03Typed(e, s)
	}
	nq := 1500
	if tier == "thorough" {
		nq = 40000
	}
	c03Quote(e, r, nq)
}

// --- special value types and the parser's quote tracker ---------------------------------------------------

type c03Named string
type c03Struct struct {
	A string         `json:"a"`
	B []string       `json:"b,omitempty"`
	C map[string]any `json:"c,omitempty"`
	D *string        `json:"d"`
}

// c03TypedValues: the same adversarial string through Go value types that encoding/json treats specially.
func c03TypedValues(s string) map[string]any {
	// raw JSON as another encoder would have produced it: valid JSON, but without HTML escaping
	var rawBuf strings.Builder
	enc := json.NewEncoder(&rawBuf)
	enc.SetEscapeHTML(false)
	_ = enc.Encode(s)
	js := []byte(strings.TrimSuffix(rawBuf.String(), "\n"))
	return map[string]any{
		"rawmessage":        json.RawMessage(js),
		"rawmessage-object": json.RawMessage(`{"k": ` + string(js) + `, "x" : [ ` + string(js) + ` ] }`),
		"named-string":      c03Named(s),
		"struct":            c03Struct{A: s, B: []string{s}, C: map[string]any{s: s}, D: &s},
		"ptr":               &s,
		"slice":             []string{s, s},
		"map":               map[string]string{s: s},
		"bytes":             []byte(s),
		"jsonnumber":        json.Number("12"),
		"marshaler":         c03Marshaler{s},
		"textmarshaler":     c03TextMarshaler{s},
	}
}

type c03Marshaler struct{ s string }

func (m c03Marshaler) MarshalJSON() ([]byte, error) { return json.Marshal(map[string]string{"m": m.s}) }

type c03TextMarshaler struct{ s string }

func (m c03TextMarshaler) MarshalText() ([]byte, error) { return []byte(m.s), nil }

func c03Typed(e *emitter, s string) {
	for name, v := range c03TypedValues(s) {
		k := "scv " + name + " " + s
		if !e.mine(k) {
			continue
		}
		in, err1 := templruntime.ScriptContentInsideStringLiteral(v)
		out, err2 := templruntime.ScriptContentOutsideStringLiteral(v)
		if err1 != nil || err2 != nil {
			continue
		}
		e.emit(k, "scv", name, hx(s), hx(in), hx(out))
	}
}

// c03BadJSON is a string whose MarshalJSON fails.
type c03BadJSON string

func (c c03BadJSON) MarshalJSON() ([]byte, error) { return nil, fmt.Errorf("cannot encode %q", string(c)) }
