package main

import (
	"bufio"
	"encoding/hex"
	"encoding/json"
	"hash/maphash"
	"os"
	"strings"
)

// hx is the wire encoding of a byte string: lower-case hex, "-" for empty.
func hx(s string) string {
	if s == "" {
		return "-"
	}
	return hex.EncodeToString([]byte(s))
}

func unhx(s string) string {
	if s == "-" {
		return ""
	}
	b, err := hex.DecodeString(s)
	if err != nil {
		panic("bad hex in corpus: " + s)
	}
	return string(b)
}

// rng is splitmix64: every random choice of a run derives from VERIF_SEED through it.
type rng struct{ s uint64 }

func (r *rng) next() uint64 {
	r.s += 0x9e3779b97f4a7c15
	z := r.s
	z = (z ^ (z >> 30)) * 0xbf58476d1ce4e5b9
	z = (z ^ (z >> 27)) * 0x94d049bb133111eb
	return z ^ (z >> 31)
}
func (r *rng) intn(n int) int {
	if n <= 0 {
		return 0
	}
	return int(r.next() % uint64(n))
}
func (r *rng) pick(xs []string) string { return xs[r.intn(len(xs))] }
func (r *rng) chance(num, den int) bool { return r.intn(den) < num }

type emitter struct {
	w          *bufio.Writer
	engine     string
	seen       map[uint64]struct{}
	seed       maphash.Seed
	emitted    int
	dups       int
	counters   map[string]int
	corpusFile string
	onlyCorpus bool
	shard      int
	nshards    int
	samples    []string
	// selfSharded: the engine derives different cases per shard itself (from the shard number), so every case it
	// emits belongs to this shard
	selfSharded bool
}

func newEmitter(w *bufio.Writer, engine string) *emitter {
	return &emitter{w: w, engine: engine, seen: map[uint64]struct{}{}, seed: maphash.MakeSeed(), counters: map[string]int{}}
}

// emit writes one request line "<engine> <fields...>"; the key (the input fields, without the
// implementation's output) is used to drop duplicate cases so that counts are of distinct inputs.
func (e *emitter) emit(key string, fields ...string) bool {
	h := maphash.String(e.seed, key)
	if e.nshards > 1 && !e.selfSharded && fnv(key)%uint64(e.nshards) != uint64(e.shard) {
		return false
	}
	if _, dup := e.seen[h]; dup {
		e.dups++
		return false
	}
	e.seen[h] = struct{}{}
	e.w.WriteString(e.engine)
	for _, f := range fields {
		e.w.WriteByte(' ')
		e.w.WriteString(f)
	}
	e.w.WriteByte('\n')
	e.emitted++
	return true
}

func (e *emitter) count(k string) { e.counters[k]++ }

func (e *emitter) corpusLines() [][]string {
	if e.corpusFile == "" {
		return nil
	}
	b, err := os.ReadFile(e.corpusFile)
	if err != nil {
		return nil
	}
	var out [][]string
	for _, l := range strings.Split(string(b), "\n") {
		l = strings.TrimSpace(l)
		if l == "" || strings.HasPrefix(l, "#") {
			continue
		}
		out = append(out, strings.Fields(l))
	}
	return out
}

func (e *emitter) writeStats(path string) {
	b, _ := json.MarshalIndent(map[string]any{"emitted": e.emitted, "duplicates_dropped": e.dups, "counters": e.counters}, "", " ")
	_ = os.WriteFile(path, b, 0o644)
}

// enumerate calls f with every string over alphabet (of arbitrary byte strings) of length 0..maxLen symbols.
func enumerate(alphabet []string, maxLen int, f func(s string)) {
	var rec func(prefix string, left int)
	rec = func(prefix string, left int) {
		f(prefix)
		if left == 0 {
			return
		}
		for _, a := range alphabet {
			rec(prefix+a, left-1)
		}
	}
	rec("", maxLen)
}

// safely runs f and reports whether it panicked.
func safely(f func()) (panicked bool, msg any) {
	defer func() {
		if r := recover(); r != nil {
			panicked = true
			msg = r
		}
	}()
	f()
	return false, nil
}

// fnv is a process-independent hash (maphash seeds differ between processes) used for sharding.
func fnv(s string) uint64 {
	h := uint64(14695981039346656037)
	for i := 0; i < len(s); i++ {
		h ^= uint64(s[i])
		h *= 1099511628211
	}
	return h
}

// mine reports whether a case with this key belongs to this process's shard; generators call it before doing
// expensive work (running the implementation) for a case.
func (e *emitter) mine(key string) bool {
	return e.nshards <= 1 || fnv(key)%uint64(e.nshards) == uint64(e.shard)
}

func sortStrings(xs []string) {
	for i := 1; i < len(xs); i++ {
		for j := i; j > 0 && xs[j] < xs[j-1]; j-- {
			xs[j], xs[j-1] = xs[j-1], xs[j]
		}
	}
}
