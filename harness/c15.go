package main

import (
	"context"
	"bytes"
	"fmt"
	"go/format"
	"os"
	"os/exec"
	"path/filepath"
	"sort"
	"strings"
	"time"

	"github.com/a-h/templ"
	"github.com/a-h/templ/generator"
	parser "github.com/a-h/templ/parser/v2"
)

func init() { register("C15", runC15) }

var c15DirNames = []string{"a", "b", "sub", "pkg", "vendor", "node_modules", ".git", "_x", ".hidden", "x_y", "vendor2", "my.dir", "_", "templ"}
var c15Stems = []string{"x", "y", "page", "_layout", ".draft", "a.b", "q_templ", "vendor", "_", "node_modules", "Z"}

const c15Good = "package p\n\ntempl %s(s string) {\n\t<p class=\"c\">{ s } %s</p>\n}\n"
const c15GoodNoExpr = "package p\n\ntempl %s() {\n\t<hr/>\n\t<b>%s</b>\n}\n"
const c15Unparseable = "package p\n\ntempl %s() {\n\t<p>%s\n}\n"
const c15Prose = "package p\n\nübersicht der seiten %s\n\ntempl T%s() {\n\t<p>x</p>\n}\n" // invalid Go: the error is at column 1 of a line that starts with a multi-byte character

const c15BadGo = "package p\n\nfunc broken%s( {\n\ntempl T%s() {\n\t<p>x</p>\n}\n"

type c15Tree map[string]string // relative slash path -> content

func c15Ident(r *rng) string { return string(rune('A'+r.intn(26))) + fmt.Sprint(r.intn(1000)) }

func c15GenTree(r *rng) (c15Tree, map[string]time.Duration) {
	t := c15Tree{}
	age := map[string]time.Duration{}
	var dirs []string
	dirs = append(dirs, "")
	nd := 1 + r.intn(6)
	for i := 0; i < nd; i++ {
		parent := dirs[r.intn(len(dirs))]
		if strings.Count(parent, "/") >= 3 {
			continue
		}
		name := r.pick(c15DirNames)
		if r.chance(1, 2) {
			name = r.pick([]string{"a", "b", "sub", "pkg", "x_y", "vendor2", "my.dir"})
		}
		dirs = append(dirs, parent+name+"/")
	}
	nf := 1 + r.intn(12)
	for i := 0; i < nf; i++ {
		d := dirs[r.intn(len(dirs))]
		stem := r.pick(c15Stems)
		id := c15Ident(r)
		switch k := r.intn(20); {
		case k < 8:
			t[d+stem+".templ"] = fmt.Sprintf(c15Good, id, id)
		case k < 10:
			t[d+stem+".templ"] = fmt.Sprintf(c15GoodNoExpr, id, id)
		case k < 11:
			t[d+stem+".templ"] = fmt.Sprintf(c15Unparseable, id, id)
		case k < 12:
			t[d+stem+".templ"] = fmt.Sprintf(c15BadGo, id, id)
		case k < 15: // a generated-looking file: orphan, stale or kept (sometimes much longer than any generation)
			t[d+stem+"_templ.go"] = "package p\n\n// stale " + id + "\n"
			if r.chance(1, 2) {
				t[d+stem+"_templ.go"] += strings.Repeat("// left over from an earlier, longer version of the template\n", 200)
			}
			age[d+stem+"_templ.go"] = time.Duration(r.intn(3)-1) * time.Hour
		case k < 17:
			t[d+stem+".go"] = "package p\n\nvar V" + id + " = 1\n"
		case k < 18:
			t[d+stem+".templ.bak"] = "not a template " + id
		case k < 19:
			t[d+stem+".txt"] = id
		default:
			t[d+"go.mod"] = "module example.com/m\n\ngo 1.23\n"
		}
	}
	// a template whose modification time is the epoch or earlier is as new as any other the first time it is seen
	if r.chance(1, 5) {
		for p := range t {
			if strings.HasSuffix(p, ".templ") && r.chance(1, 2) {
				age[p] = []time.Duration{c15AgeEpoch, c15AgeOld}[r.intn(2)]
			}
		}
	}
	// directories that are named like a template or like a generated file: only FILES are generated from or removed
	if r.chance(1, 4) {
		d := dirs[r.intn(len(dirs))]
		switch r.intn(3) {
		case 0:
			t[d+"emptydir_templ.go/"] = ""
		case 1:
			id := c15Ident(r)
			t[d+"pages.templ/inner.templ"] = fmt.Sprintf(c15Good, id, id)
			if r.chance(1, 2) {
				// a generated-looking FILE whose template name is taken by a directory: it has no template file
				t[d+"pages_templ.go"] = "package p\n\n// stale " + id + "\n"
			}
		default:
			t[d+"old_templ.go/keep.txt"] = "keep"
		}
	}
	return t, age
}

func c15Write(root string, t c15Tree, age map[string]time.Duration) error {
	base := time.Now().Add(-48 * time.Hour).Truncate(time.Second)
	for p, c := range t {
		full := filepath.Join(root, filepath.FromSlash(p))
		if strings.HasSuffix(p, "/") {
			if err := os.MkdirAll(full, 0o755); err != nil {
				return err
			}
			continue
		}
		if err := os.MkdirAll(filepath.Dir(full), 0o755); err != nil {
			return err
		}
		if err := os.WriteFile(full, []byte(c), 0o644); err != nil {
			return err
		}
		mt := base.Add(age[p])
		switch age[p] {
		case c15AgeEpoch: // normalised timestamps of reproducible archives and container layers
			mt = time.Unix(0, 0)
		case c15AgeOld:
			mt = time.Date(1969, 7, 20, 20, 17, 0, 0, time.UTC)
		}
		os.Chtimes(full, mt, mt)
	}
	return nil
}

type c15Snap struct {
	content map[string]string
	mtime   map[string]time.Time
}

func c15Snapshot(root string) c15Snap {
	s := c15Snap{map[string]string{}, map[string]time.Time{}}
	filepath.Walk(root, func(p string, info os.FileInfo, err error) error {
		if err != nil {
			return nil
		}
		if info.IsDir() {
			// directories are part of the tree too (as "name/"), so that a removed directory is seen
			if rel, _ := filepath.Rel(root, p); rel != "." {
				s.content[filepath.ToSlash(rel)+"/"] = ""
			}
			return nil
		}
		rel, _ := filepath.Rel(root, p)
		b, _ := os.ReadFile(p)
		s.content[filepath.ToSlash(rel)] = string(b)
		s.mtime[filepath.ToSlash(rel)] = info.ModTime()
		return nil
	})
	return s
}

func c15Listing(m map[string]string) string {
	keys := make([]string, 0, len(m))
	for k := range m {
		keys = append(keys, k)
	}
	sort.Strings(keys)
	parts := make([]string, 0, len(keys))
	for _, k := range keys {
		parts = append(parts, hx(k)+"="+hx(m[k]))
	}
	if len(parts) == 0 {
		return "-"
	}
	return strings.Join(parts, ";")
}

// c15GenAlone is "the gofmt-formatted generation of that file alone": the library pipeline on one file, no CLI, no workers.
func c15GenAlone(root, rel string, includeVersion bool) (string, bool) {
	full := filepath.Join(root, filepath.FromSlash(rel))
	tf, err := parser.Parse(full)
	if err != nil {
		return "", false
	}
	opts := []generator.GenerateOpt{}
	if includeVersion {
		opts = append(opts, generator.WithVersion(templ.Version()))
	}
	opts = append(opts, generator.WithFileName(rel))
	var b bytes.Buffer
	if _, err := generator.Generate(tf, &b, opts...); err != nil {
		return "", false
	}
	out, err := format.Source(b.Bytes())
	if err != nil {
		return "", false
	}
	return string(out), true
}

const (
	c15AgeEpoch = time.Duration(-1 << 62)
	c15AgeOld   = time.Duration(-1<<62 + 1)
)

var c15Fixed = []struct {
	workers int
	files   [][2]string
}{
	{1, [][2]string{{"a.templ", "unparseable"}, {"b.templ", "good"}, {"c.templ", "plain"}}},
	{2, [][2]string{{"a.templ", "unparseable"}, {"b.templ", "badgo"}, {"c.templ", "good"}, {"d/x.templ", "good"}}},
	{3, [][2]string{{"a.templ", "badgo"}, {"b.templ", "unparseable"}, {"c.templ", "unparseable"}, {"y/k.templ", "plain"}, {"z.templ", "good"}}},
	{1, [][2]string{{"m/a.templ", "good"}, {"m/b.templ", "badgo"}, {"m/c.templ", "good"}, {"n.templ", "unparseable"}, {"o.templ", "good"}}},
	{2, [][2]string{{"pages.templ/inner.templ", "good"}, {"pages_templ.go", "stale"}, {"q.templ", "plain"}}},
	{1, [][2]string{{"a.templ", "prose"}, {"b.templ", "good"}, {"c.templ", "good"}, {"d/e.templ", "good"}, {"f.templ", "plain"}}},
	{8, [][2]string{{"a.templ", "good"}, {"b.templ", "prose"}, {"c.templ", "good"}, {"d/e.templ", "plain"}, {"d/f.templ", "good"}, {"g.templ", "badgo"}, {"h.templ", "good"}}},
	{2, [][2]string{{"a.templ", "good@epoch"}, {"a_templ.go", "stale"}, {"b.templ", "plain@old"}, {"c.templ", "good"}, {"c_templ.go", "longstale"}}},
}

func runC15(e *emitter, tier string, seed uint64) {
	r := &rng{s: seed}
	root := os.Getenv("VERIF_ROOT")
	if root == "" {
		root = "/verif"
	}
	bin := filepath.Join(root, ".work", "templ-race")
	if _, err := os.Stat(bin); err != nil {
		e.emit("gen missing", "gen", "-", "1", "-", "-", "-", "-", "1", "-", "1", "1", hx("race-built templ CLI not found: "+bin))
		return
	}
	scratch := workDir
	if scratch == "" {
		scratch = filepath.Join(root, ".work", "c15tmp")
	}
	n := 60
	if tier == "thorough" {
		n = 3000
	}
	for i := 0; i < n; i++ {
		tree, age := c15GenTree(r)
		keep, lazy, ver := r.chance(1, 4), r.chance(1, 5), !r.chance(1, 4)
		workers := 1 + r.intn(16)
		if r.chance(1, 3) {
			workers = 16
		}
		procs := []int{1 + r.intn(16), 1 + r.intn(16)}
		spell := 0
		if r.chance(1, 2) {
			spell = 1 + r.intn(4)
		}
		// the root is the directory the user named: its own name never makes it a skipped directory
		rootKind := r.intn(10)
		// fixed trees first: as many files that cannot be generated as there are workers, followed (in walk order) by
		// files that can — every one of them must still be generated and the run must end
		if i < len(c15Fixed) {
			tree, age = c15Tree{}, map[string]time.Duration{}
			for _, f := range c15Fixed[i].files {
				id := c15Ident(r)
				if kind, at, ok := strings.Cut(f[1], "@"); ok {
					f[1] = kind
					age[f[0]] = map[string]time.Duration{"epoch": c15AgeEpoch, "old": c15AgeOld}[at]
				}
				tree[f[0]] = fmt.Sprintf(map[string]string{"good": c15Good, "plain": c15GoodNoExpr, "unparseable": c15Unparseable, "badgo": c15BadGo, "prose": c15Prose, "stale": "package p\n\n// stale %s %s\n",
					"longstale": "package p\n\n// stale %s %s\n" + strings.Repeat("// left over from an earlier, longer version of the template\n", 200)}[f[1]], id, id)
			}
			workers, keep, lazy, spell = c15Fixed[i].workers, false, false, 0
		}
		if !e.mine(fmt.Sprintf("gen %d", i)) {
			continue
		}
		top := filepath.Join(scratch, fmt.Sprintf("c15-%d", i))
		dir := top
		switch rootKind {
		case 0:
			top = filepath.Join(scratch, fmt.Sprintf("_c15-%d", i))
			dir = top
		case 1:
			top = filepath.Join(scratch, fmt.Sprintf(".c15-%d", i))
			dir = top
		case 2:
			dir = filepath.Join(top, "vendor")
		case 3:
			dir = filepath.Join(top, "node_modules")
		}
		os.RemoveAll(top)
		if c15Write(dir, tree, age) != nil {
			continue
		}
		before := c15Snapshot(dir)
		// what each .templ file generates alone (computed before the run, on the files as they are)
		gen := map[string]string{}
		var genParts []string
		for p := range before.content {
			if strings.HasSuffix(p, ".templ") {
				if code, ok := c15GenAlone(dir, p, ver); ok {
					gen[p] = code
					genParts = append(genParts, hx(p)+"="+hx(code))
				} else {
					genParts = append(genParts, hx(p)+"=ERR")
				}
			}
		}
		sort.Strings(genParts)
		if lazy {
			// precondition of -lazy: a generated file newer than its template is a correct generation
			for p, code := range gen {
				tgt := strings.TrimSuffix(p, ".templ") + "_templ.go"
				if _, ok := before.content[tgt]; ok && before.mtime[tgt].After(before.mtime[p]) {
					full := filepath.Join(dir, filepath.FromSlash(tgt))
					os.WriteFile(full, []byte(code), 0o644)
					os.Chtimes(full, before.mtime[tgt], before.mtime[tgt])
				}
			}
			// a template that cannot be generated has no correct generation: its sibling, if any, must not be newer
			for p := range before.content {
				if _, ok := gen[p]; ok || !strings.HasSuffix(p, ".templ") {
					continue
				}
				tgt := strings.TrimSuffix(p, ".templ") + "_templ.go"
				if _, ok := before.content[tgt]; ok && !before.mtime[tgt].Before(before.mtime[p]) {
					older := before.mtime[p].Add(-time.Hour)
					os.Chtimes(filepath.Join(dir, filepath.FromSlash(tgt)), older, older)
				}
			}
			before = c15Snapshot(dir)
		}
		// the same tree under different spellings of the root
		pathArg := dir
		switch spell {
		case 1:
			pathArg = dir + "/"
		case 2:
			pathArg = dir + "/."
		case 3:
			pathArg = filepath.Dir(dir) + "//" + filepath.Base(dir)
		case 4:
			if rel, err := filepath.Rel(scratch, dir); err == nil {
				pathArg = rel // relative to the command's working directory
			}
		}
		args := []string{"generate", "-path", pathArg, "-w", fmt.Sprint(workers), fmt.Sprintf("-include-version=%v", ver), "-log-level", "error"}
		if keep {
			args = append(args, "-keep-orphaned-files")
		}
		if lazy {
			args = append(args, "-lazy")
		}
		nrun := 0
		runOnce := func() (int, int, string) {
			ctx, cancelRun := context.WithTimeout(context.Background(), 45*time.Second)
			defer cancelRun()
			cmd := exec.CommandContext(ctx, bin, args...)
			cmd.Env = append(os.Environ(), "GORACE=halt_on_error=0 exitcode=0", fmt.Sprintf("GOMAXPROCS=%d", procs[nrun%2]), "TEMPL_DEV_MODE=")
			cmd.Dir = scratch
			var stderr bytes.Buffer
			cmd.Stderr = &stderr
			cmd.Stdout = &stderr
			err := cmd.Run()
			nrun++
			code := 0
			if err != nil {
				code = 1
				if ee, ok := err.(*exec.ExitError); ok {
					code = ee.ExitCode()
				}
			}
			if ctx.Err() != nil {
				// the command must terminate: failing files are reported, they do not stop the run
				return 124, 1, "TIMEOUT: templ generate did not exit within 45 s (workers " + fmt.Sprint(workers) + ")"
			}
			races := strings.Count(stderr.String(), "WARNING: DATA RACE")
			detail := "-"
			if races > 0 {
				i := strings.Index(stderr.String(), "WARNING: DATA RACE")
				detail = stderr.String()[i:min(len(stderr.String()), i+1200)]
			} else if strings.Contains(stderr.String(), "fatal error:") || strings.Contains(stderr.String(), "panic:") {
				races = 1
				detail = stderr.String()[:min(len(stderr.String()), 800)]
			}
			return code, races, detail
		}
		exit1, races1, detail1 := runOnce()
		after := c15Snapshot(dir)
		var touched []string
		for p, mt := range after.mtime {
			if bmt, ok := before.mtime[p]; !ok || !bmt.Equal(mt) {
				touched = append(touched, hx(p))
			}
		}
		for p := range before.mtime {
			if _, ok := after.mtime[p]; !ok {
				touched = append(touched, hx(p))
			}
		}
		sort.Strings(touched)
		exit2, races2, detail2 := runOnce()
		after2 := c15Snapshot(dir)
		detail := detail1
		if races1 == 0 {
			detail = detail2
		}
		flags := ""
		if keep {
			flags += "k"
		}
		if lazy {
			flags += "l"
		}
		if ver {
			flags += "v"
		}
		if flags == "" {
			flags = "-"
		}
		tj := "-"
		if len(touched) > 0 {
			tj = strings.Join(touched, ";")
		}
		gj := "-"
		if len(genParts) > 0 {
			gj = strings.Join(genParts, ";")
		}
		e.emit(fmt.Sprintf("gen %d", i), "gen", flags, fmt.Sprint(workers), c15Listing(before.content), gj, c15Listing(after.content), tj,
			fmt.Sprint(exit1), c15Listing(after2.content), fmt.Sprint(exit2), fmt.Sprint(races1+races2), hx(detail))
		os.RemoveAll(top)
	}
}
