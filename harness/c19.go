package main

import (
	"bufio"
	"bytes"
	"io"
	"log/slog"
	"net/url"
	"os"
	"os/exec"
	"context"
	"fmt"
	"net/http"
	"net/http/httptest"
	"runtime"
	"strings"
	"sync"
	"time"

	gproxy "github.com/a-h/templ/cmd/templ/generatecmd/proxy"
	"github.com/a-h/templ/cmd/templ/generatecmd/sse"
)

func init() {
	register("C19", runC19)
	register("C19stress", runC19Stress)
}

// recWriter records the events a client receives (ignoring pings).
type recWriter struct {
	mu     sync.Mutex
	hdr    http.Header
	events []string
	buf    strings.Builder
}

func (w *recWriter) Header() http.Header { return w.hdr }
func (w *recWriter) WriteHeader(int)     {}
func (w *recWriter) Flush()              {}
func (w *recWriter) Write(p []byte) (int, error) {
	w.mu.Lock()
	defer w.mu.Unlock()
	w.buf.Write(p)
	for {
		s := w.buf.String()
		i := strings.Index(s, "\n\n")
		if i < 0 {
			break
		}
		msg := s[:i]
		w.buf.Reset()
		w.buf.WriteString(s[i+2:])
		for _, l := range strings.Split(msg, "\n") {
			if strings.HasPrefix(l, "data: ") && l != "data: ping" {
				w.events = append(w.events, strings.TrimPrefix(l, "data: "))
			}
		}
	}
	return len(p), nil
}
func (w *recWriter) got() []string {
	w.mu.Lock()
	defer w.mu.Unlock()
	return append([]string(nil), w.events...)
}

type c19Gate struct {
	ch      any
	release chan struct{}
}

type c19Client struct {
	id        int
	ch        any
	w         *recWriter
	cancel    context.CancelFunc
	done      chan struct{} // ServeHTTP returned
	atExit    chan struct{} // parked in the exit hook
	exitGo    chan struct{}
	cancelled bool
	exited    bool
}

// c19Run drives the REAL sse.Handler through one schedule with forced interleaving (verif hooks) and returns
// the observations: panicked, leaked goroutines, per-client received events at the snapshot and at the end.
type c19World struct {
	mu         sync.Mutex
	h          *sse.Handler
	clients    map[int]*c19Client
	byCh       map[any]*c19Client
	parked     []*c19Gate // delivery goroutines parked at the gate, not yet assigned
	gates      map[[2]int]*c19Gate
	registered chan *c19Client
	pending    *c19Client
	panicked   bool
	arrive     chan struct{}
}

var c19Current *c19World
var c19HookOnce sync.Once

func c19InstallHooks() {
	c19HookOnce.Do(func() {
		sse.VerifYield = func(point string, id int64, ch any) {
			w := c19Current
			if w == nil {
				return
			}
			switch point {
			case "registered":
				w.mu.Lock()
				c := w.pending
				c.ch = ch
				w.byCh[ch] = c
				w.mu.Unlock()
				w.registered <- c
			case "deliver":
				g := &c19Gate{ch: ch, release: make(chan struct{})}
				w.mu.Lock()
				w.parked = append(w.parked, g)
				w.mu.Unlock()
				w.arrive <- struct{}{}
				<-g.release
			case "exit":
				w.mu.Lock()
				c := w.byCh[ch]
				w.mu.Unlock()
				close(c.atExit)
				<-c.exitGo
			}
		}
		sse.VerifPanic = func(ch any, v any) {
			if w := c19Current; w != nil {
				w.mu.Lock()
				w.panicked = true
				w.mu.Unlock()
			}
		}
	})
}

func waitFor(cond func() bool, d time.Duration) bool {
	deadline := time.Now().Add(d)
	for time.Now().Before(deadline) {
		if cond() {
			return true
		}
		time.Sleep(200 * time.Microsecond)
	}
	return cond()
}

type c19Obs struct {
	panicked bool
	leaked   int
	snapshot map[int][]string
	final    map[int][]string
	note     string
}

func c19Run(actions []string, snapshotAt int) c19Obs {
	c19InstallHooks()
	base := runtime.NumGoroutine()
	w := &c19World{h: sse.New(), clients: map[int]*c19Client{}, byCh: map[any]*c19Client{}, gates: map[[2]int]*c19Gate{},
		registered: make(chan *c19Client, 1), arrive: make(chan struct{}, 1024)}
	c19Current = w
	obs := c19Obs{snapshot: map[int][]string{}, final: map[int][]string{}}
	nextEvent := 0
	snap := func(m map[int][]string) {
		for id, c := range w.clients {
			m[id] = c.w.got()
		}
	}
	for i, a := range actions {
		if i == snapshotAt {
			snap(obs.snapshot)
		}
		var c, e int
		switch a[0] {
		case 's':
			fmt.Sscanf(a, "s%d", &c)
			ctx, cancel := context.WithCancel(context.Background())
			cl := &c19Client{id: c, w: &recWriter{hdr: http.Header{}}, cancel: cancel, done: make(chan struct{}), atExit: make(chan struct{}), exitGo: make(chan struct{})}
			w.mu.Lock()
			w.pending = cl
			w.clients[c] = cl
			w.mu.Unlock()
			req := httptest.NewRequest("GET", "/", nil).WithContext(ctx)
			go func() { defer close(cl.done); w.h.ServeHTTP(cl.w, req) }()
			select {
			case <-w.registered:
			case <-time.After(2 * time.Second):
				obs.note += "subscribe-timeout;"
			}
		case 'b':
			w.mu.Lock()
			n := 0
			for _, cl := range w.clients {
				if !cl.exited {
					n++
				}
			}
			w.mu.Unlock()
			// the broadcaster must never wait for a client: Send returns whatever the deliveries are doing
			sendDone := make(chan struct{})
			go func(ev int) { w.h.Send("message", fmt.Sprint(ev)); close(sendDone) }(nextEvent)
			select {
			case <-sendDone:
			case <-time.After(2 * time.Second):
				obs.note += "broadcast-did-not-return;"
			}
			for k := 0; k < n; k++ {
				select {
				case <-w.arrive:
				case <-time.After(2 * time.Second):
					obs.note += "broadcast-goroutine-missing;"
				}
			}
			w.mu.Lock()
			for _, g := range w.parked {
				if cl := w.byCh[g.ch]; cl != nil {
					w.gates[[2]int{cl.id, nextEvent}] = g
				}
			}
			w.parked = nil
			w.mu.Unlock()
			nextEvent++
		case 'd', 'x':
			fmt.Sscanf(a[1:], "%d.%d", &c, &e)
			w.mu.Lock()
			g := w.gates[[2]int{c, e}]
			delete(w.gates, [2]int{c, e})
			cl := w.clients[c]
			w.mu.Unlock()
			if g == nil || cl == nil {
				continue
			}
			before := len(cl.w.got())
			close(g.release)
			if a[0] == 'd' && !cl.cancelled {
				if !waitFor(func() bool { return len(cl.w.got()) > before }, 2*time.Second) {
					obs.note += "deliver-not-received;"
				}
			} else {
				time.Sleep(2 * time.Millisecond)
			}
		case 'c':
			fmt.Sscanf(a, "c%d", &c)
			if cl := w.clients[c]; cl != nil && !cl.cancelled {
				cl.cancelled = true
				cl.cancel()
				select {
				case <-cl.atExit:
				case <-time.After(2 * time.Second):
					obs.note += "cancel-handler-did-not-leave-loop;"
				}
			}
		case 'e':
			fmt.Sscanf(a, "e%d", &c)
			if cl := w.clients[c]; cl != nil && cl.cancelled && !cl.exited {
				cl.exited = true
				close(cl.exitGo)
				select {
				case <-cl.done:
				case <-time.After(2 * time.Second):
					obs.note += "exit-handler-did-not-return;"
				}
				time.Sleep(time.Millisecond)
			}
		}
	}
	if snapshotAt >= len(actions) {
		snap(obs.snapshot)
	}
	snap(obs.final)
	// leak accounting: every goroutine we started should be gone
	waitFor(func() bool { return runtime.NumGoroutine() <= base }, 300*time.Millisecond)
	obs.leaked = runtime.NumGoroutine() - base
	if obs.leaked < 0 {
		obs.leaked = 0
	}
	w.mu.Lock()
	obs.panicked = w.panicked
	// release anything still parked so that leaked goroutines of this run do not pile up (they are counted already)
	for _, g := range w.gates {
		close(g.release)
	}
	w.mu.Unlock()
	c19Current = nil
	return obs
}

// c19Mirror tracks enabledness so that generated schedules are meaningful (the Lean model decides; this is only
// a generator aid).
type c19Mirror struct {
	clients            map[int]*[3]bool // registered, cancelled, exited
	pending            [][2]int
	nextEvent, nextCli int
}

func encLogs(m map[int][]string) string {
	if len(m) == 0 {
		return "-"
	}
	var parts []string
	for id := 0; id < 64; id++ {
		if ev, ok := m[id]; ok {
			parts = append(parts, fmt.Sprintf("%d:%s", id, strings.Join(ev, ",")))
		}
	}
	return strings.Join(parts, ";")
}

var c19TimedOut int

func c19Emit(e *emitter, main []string) {
	// settle: deliver everything pending to live clients, snapshot, then drain (cancel, exit, drop)
	m := &c19Mirror{clients: map[int]*[3]bool{}}
	apply := func(a string) {
		var c, ev int
		switch a[0] {
		case 's':
			fmt.Sscanf(a, "s%d", &c)
			if m.clients[c] == nil {
				m.clients[c] = &[3]bool{true, false, false}
			}
		case 'b':
			for id, st := range m.clients {
				if st[0] {
					m.pending = append(m.pending, [2]int{id, m.nextEvent})
				}
			}
			m.nextEvent++
		case 'd', 'x':
			fmt.Sscanf(a[1:], "%d.%d", &c, &ev)
			for i, p := range m.pending {
				if p == [2]int{c, ev} {
					m.pending = append(m.pending[:i], m.pending[i+1:]...)
					break
				}
			}
		case 'c':
			fmt.Sscanf(a, "c%d", &c)
			if st := m.clients[c]; st != nil {
				st[1] = true
			}
		case 'e':
			fmt.Sscanf(a, "e%d", &c)
			if st := m.clients[c]; st != nil && st[1] {
				st[2], st[0] = true, false
			}
		}
	}
	for _, a := range main {
		apply(a)
	}
	full := append([]string(nil), main...)
	for _, p := range append([][2]int(nil), m.pending...) {
		if st := m.clients[p[0]]; st != nil && !st[1] {
			a := fmt.Sprintf("d%d.%d", p[0], p[1])
			full = append(full, a)
			apply(a)
		}
	}
	snapshotAt := len(full)
	for id := 0; id < 64; id++ {
		if st := m.clients[id]; st != nil {
			if !st[1] {
				full = append(full, fmt.Sprintf("c%d", id))
			}
			if !st[2] {
				full = append(full, fmt.Sprintf("e%d", id))
			}
		}
	}
	for _, a := range full[snapshotAt:] {
		apply(a)
	}
	for _, p := range append([][2]int(nil), m.pending...) {
		full = append(full, fmt.Sprintf("x%d.%d", p[0], p[1]))
	}
	key := strings.Join(full, " ")
	if !e.mine(key) {
		return
	}
	// once a number of schedules have run into time-outs the violation is established: do not spend minutes on the rest
	if c19TimedOut >= 12 {
		return
	}
	obs := c19Run(full, snapshotAt)
	if obs.note != "" {
		c19TimedOut++
	}
	note := obs.note
	if note == "" {
		note = "-"
	}
	e.emit(key, "sched", strings.Join(full, ","), fmt.Sprint(snapshotAt), fmt.Sprint(obs.panicked), fmt.Sprint(obs.leaked), encLogs(obs.snapshot), encLogs(obs.final), note)
}

func runC19(e *emitter, tier string, seed uint64) {
	for _, f := range e.corpusLines() {
		if len(f) >= 3 && f[0] == "C19" && f[1] == "sched" {
			// corpus lines carry the full schedule; re-derive the main part up to the snapshot index
			acts := strings.Split(f[2], ",")
			n := len(acts)
			if len(f) >= 4 {
				fmt.Sscanf(f[3], "%d", &n)
			}
			if n > len(acts) {
				n = len(acts)
			}
			c19Emit(e, acts[:n])
		}
	}
	if e.onlyCorpus {
		return
	}
	c19SlowReader(e)
	c19Burst(e)
	c19ThroughProxy(e)
	c19Stress(e, tier)
	// the witness of the repaired defect and small hand-written churn schedules
	for _, s := range [][]string{
		{"s1", "b", "c1", "e1", "x1.0"},
		{"s1", "b", "c1", "x1.0", "e1"},
		{"s1", "s2", "b", "c2", "d1.0", "e2", "x2.0", "b", "d1.1"},
		{"s1", "b", "b", "d1.1", "d1.0"},
		{"s1", "c1", "b", "e1", "x1.0", "s2", "b", "d2.1"},
		{"b", "s1", "b", "d1.1"},
	} {
		c19Emit(e, s)
	}
	// exhaustive: every schedule of bounded length over <= 2 clients drawn from the enabled actions
	maxLen := 6
	if tier == "thorough" {
		maxLen = 8
	}
	var rec func(prefix []string, m c19Mirror, depth int)
	clone := func(m c19Mirror) c19Mirror {
		n := c19Mirror{clients: map[int]*[3]bool{}, nextEvent: m.nextEvent, nextCli: m.nextCli}
		for k, v := range m.clients {
			vv := *v
			n.clients[k] = &vv
		}
		n.pending = append([][2]int(nil), m.pending...)
		return n
	}
	count := 0
	rec = func(prefix []string, m c19Mirror, depth int) {
		if len(prefix) > 0 {
			c19Emit(e, prefix)
			count++
		}
		if depth == 0 {
			return
		}
		var opts []string
		if m.nextCli < 2 {
			opts = append(opts, fmt.Sprintf("s%d", m.nextCli+1))
		}
		if m.nextEvent < 2 {
			opts = append(opts, "b")
		}
		for id, st := range m.clients {
			if !st[1] {
				opts = append(opts, fmt.Sprintf("c%d", id))
			} else if !st[2] {
				opts = append(opts, fmt.Sprintf("e%d", id))
			}
		}
		for _, p := range m.pending {
			st := m.clients[p[0]]
			if !st[1] {
				opts = append(opts, fmt.Sprintf("d%d.%d", p[0], p[1]))
			} else {
				opts = append(opts, fmt.Sprintf("x%d.%d", p[0], p[1]))
			}
		}
		sortStrings(opts)
		for _, a := range opts {
			m2 := clone(m)
			var c, ev int
			switch a[0] {
			case 's':
				m2.nextCli++
				m2.clients[m2.nextCli] = &[3]bool{true, false, false}
			case 'b':
				for id, st := range m2.clients {
					if st[0] {
						m2.pending = append(m2.pending, [2]int{id, m2.nextEvent})
					}
				}
				m2.nextEvent++
			case 'c':
				fmt.Sscanf(a, "c%d", &c)
				m2.clients[c][1] = true
			case 'e':
				fmt.Sscanf(a, "e%d", &c)
				m2.clients[c][2], m2.clients[c][0] = true, false
			case 'd', 'x':
				fmt.Sscanf(a[1:], "%d.%d", &c, &ev)
				for i, p := range m2.pending {
					if p == [2]int{c, ev} {
						m2.pending = append(m2.pending[:i], m2.pending[i+1:]...)
						break
					}
				}
			}
			rec(append(append([]string(nil), prefix...), a), m2, depth-1)
		}
	}
	rec(nil, c19Mirror{clients: map[int]*[3]bool{}}, maxLen)
	// random longer schedules with more clients
	r := &rng{s: seed}
	nr := 60
	if tier == "thorough" {
		nr = 1500
	}
	for i := 0; i < nr; i++ {
		m := c19Mirror{clients: map[int]*[3]bool{}}
		var sched []string
		for k := 0; k < 6+r.intn(14); k++ {
			var opts []string
			if m.nextCli < 5 {
				opts = append(opts, "s", "s")
			}
			opts = append(opts, "b", "b")
			for id, st := range m.clients {
				if !st[1] {
					opts = append(opts, fmt.Sprintf("c%d", id))
				} else if !st[2] {
					opts = append(opts, fmt.Sprintf("e%d", id))
				}
			}
			for _, p := range m.pending {
				if !m.clients[p[0]][1] {
					opts = append(opts, fmt.Sprintf("d%d.%d", p[0], p[1]))
				} else {
					opts = append(opts, fmt.Sprintf("x%d.%d", p[0], p[1]))
				}
			}
			sortStrings(opts)
			a := opts[r.intn(len(opts))]
			var c, ev int
			switch a[0] {
			case 's':
				m.nextCli++
				a = fmt.Sprintf("s%d", m.nextCli)
				m.clients[m.nextCli] = &[3]bool{true, false, false}
			case 'b':
				for id, st := range m.clients {
					if st[0] {
						m.pending = append(m.pending, [2]int{id, m.nextEvent})
					}
				}
				m.nextEvent++
			case 'c':
				fmt.Sscanf(a, "c%d", &c)
				m.clients[c][1] = true
			case 'e':
				fmt.Sscanf(a, "e%d", &c)
				m.clients[c][2], m.clients[c][0] = true, false
			case 'd', 'x':
				fmt.Sscanf(a[1:], "%d.%d", &c, &ev)
				for j, p := range m.pending {
					if p == [2]int{c, ev} {
						m.pending = append(m.pending[:j], m.pending[j+1:]...)
						break
					}
				}
			}
			sched = append(sched, a)
		}
		c19Emit(e, sched)
	}
}


type slowWriter19 struct {
	recWriter
	first chan struct{}
	hold  time.Duration
	once  sync.Once
}

func (w *slowWriter19) Write(p []byte) (int, error) {
	if strings.Contains(string(p), "event: message") {
		w.once.Do(func() { close(w.first); time.Sleep(w.hold) })
	}
	return w.recWriter.Write(p)
}

// c19SlowReader: real time. A connected client whose connection is backed up for several seconds (its handler is blocked
// in Write) must still receive every event broadcast meanwhile, and a prompt client must not wait for it.
func c19SlowReader(e *emitter) {
	if !e.mine("slowreader") {
		return
	}
	c19Current = nil // no parking: deliveries run freely
	h := sse.New()
	slow := &slowWriter19{recWriter: recWriter{hdr: http.Header{}}, first: make(chan struct{}), hold: 3600 * time.Millisecond}
	fast := &recWriter{hdr: http.Header{}}
	ctx, cancel := context.WithCancel(context.Background())
	defer cancel()
	var wg sync.WaitGroup
	for _, w := range []http.ResponseWriter{slow, fast} {
		wg.Add(1)
		go func(w http.ResponseWriter) { defer wg.Done(); h.ServeHTTP(w, httptest.NewRequest("GET", "/", nil).WithContext(ctx)) }(w)
	}
	time.Sleep(100 * time.Millisecond)
	const n = 5
	t0 := time.Now()
	h.Send("message", "0")
	<-slow.first // the slow client is now stuck writing event 0
	for i := 1; i < n; i++ {
		h.Send("message", fmt.Sprint(i))
	}
	fastOK := waitFor(func() bool { return len(fast.got()) >= n }, 1500*time.Millisecond)
	fastAt := time.Since(t0)
	slowOK := waitFor(func() bool { return len(slow.got()) >= n }, 6*time.Second)
	cancel()
	wg.Wait()
	e.emit("slowreader", "slow", fmt.Sprint(n), fmt.Sprint(len(slow.got())), fmt.Sprint(len(fast.got())), b01(fastOK), b01(slowOK), fmt.Sprint(fastAt.Milliseconds()))
}

// runC19Stress is a child process (a fatal runtime error - concurrent map iteration and map write - cannot be recovered):
// resident clients stay subscribed, other goroutines subscribe and leave in a loop, and events are broadcast back to
// back, all truly in parallel. Every resident client must have received every event.
func runC19Stress(e *emitter, tier string, seed uint64) {
	c19Current = nil
	h := sse.New()
	dur := 1200 * time.Millisecond
	if tier == "thorough" {
		dur = 6 * time.Second
	}
	residents := make([]*recWriter, 72) // as many tabs as a long session leaves open
	ctx, cancel := context.WithCancel(context.Background())
	var rwg sync.WaitGroup
	for i := range residents {
		residents[i] = &recWriter{hdr: http.Header{}}
		rwg.Add(1)
		go func(w *recWriter) {
			defer rwg.Done()
			h.ServeHTTP(w, httptest.NewRequest("GET", "/", nil).WithContext(ctx))
		}(residents[i])
	}
	time.Sleep(100 * time.Millisecond)
	stop := make(chan struct{})
	var cwg sync.WaitGroup
	for g := 0; g < 8; g++ {
		cwg.Add(1)
		go func() {
			defer cwg.Done()
			for {
				select {
				case <-stop:
					return
				default:
				}
				cctx, ccancel := context.WithCancel(context.Background())
				done := make(chan struct{})
				go func() {
					h.ServeHTTP(&recWriter{hdr: http.Header{}}, httptest.NewRequest("GET", "/", nil).WithContext(cctx))
					close(done)
				}()
				time.Sleep(time.Duration(50+seed%50) * time.Microsecond)
				ccancel()
				<-done
			}
		}()
	}
	sent := 0
	for t0 := time.Now(); time.Since(t0) < dur; {
		h.Send("message", fmt.Sprint(sent))
		sent++
		if sent%64 == 0 {
			time.Sleep(200 * time.Microsecond)
		}
	}
	close(stop)
	cwg.Wait()
	missing := 0
	ok := waitFor(func() bool {
		for _, w := range residents {
			if len(w.got()) < sent {
				return false
			}
		}
		return true
	}, 5*time.Second)
	if !ok {
		for _, w := range residents {
			if len(w.got()) < sent {
				missing++
			}
		}
	}
	cancel()
	rwg.Wait()
	fmt.Fprintf(e.w, "STRESS sent=%d missing=%d\n", sent, missing)
}

func c19Stress(e *emitter, tier string) {
	if !e.mine("stress") {
		return
	}
	self, _ := os.Executable()
	limit := 45 * time.Second
	if tier == "thorough" {
		limit = 90 * time.Second
	}
	cctx, ccancel := context.WithTimeout(context.Background(), limit)
	defer ccancel()
	cmd := exec.CommandContext(cctx, self, "C19stress", "-tier", tier)
	var stderr bytes.Buffer
	cmd.Stderr = &stderr
	out, err := cmd.Output()
	status, sent, missing := "ok", 0, 0
	if n, _ := fmt.Sscanf(strings.TrimSpace(string(out)), "STRESS sent=%d missing=%d", &sent, &missing); n != 2 || err != nil {
		status = fmt.Sprintf("child failed: %v", err)
		if cctx.Err() != nil {
			status = fmt.Sprintf("wedged: no result within %v (broadcasts, subscriptions or departures block for good)", limit)
		}
		if i := strings.Index(stderr.String(), "fatal error:"); i >= 0 {
			status = strings.SplitN(stderr.String()[i:], "\n", 2)[0]
		} else if i := strings.Index(stderr.String(), "panic:"); i >= 0 {
			status = strings.SplitN(stderr.String()[i:], "\n", 2)[0]
		}
	}
	e.emit("stress", "stress", hx(status), fmt.Sprint(sent), fmt.Sprint(missing))
}

// c19Burst: several reloads with the SAME type and data, back to back and a little apart (a text update followed by a Go
// update of the same change): every connected client receives every one of them.
func c19Burst(e *emitter) {
	if !e.mine("burst") {
		return
	}
	c19Current = nil
	h := sse.New()
	ctx, cancel := context.WithCancel(context.Background())
	defer cancel()
	clients := []*recWriter{{hdr: http.Header{}}, {hdr: http.Header{}}, {hdr: http.Header{}}}
	var wg sync.WaitGroup
	for _, w := range clients {
		wg.Add(1)
		go func(w *recWriter) {
			defer wg.Done()
			h.ServeHTTP(w, httptest.NewRequest("GET", "/", nil).WithContext(ctx))
		}(w)
	}
	time.Sleep(100 * time.Millisecond)
	sent := 0
	for i := 0; i < 4; i++ {
		h.Send("message", "reload")
		sent++
	}
	time.Sleep(120 * time.Millisecond)
	h.Send("message", "reload")
	sent++
	time.Sleep(120 * time.Millisecond)
	h.Send("message", "reload")
	sent++
	waitFor(func() bool {
		for _, w := range clients {
			if len(w.got()) < sent {
				return false
			}
		}
		return true
	}, 2*time.Second)
	var got []string
	for _, w := range clients {
		got = append(got, fmt.Sprint(len(w.got())))
	}
	cancel()
	wg.Wait()
	e.emit("burst", "burst", fmt.Sprint(sent), strings.Join(got, ","))
}

// c19ThroughProxy: the event stream as the browser gets it - through the development proxy's handler behind a real HTTP
// server - with the proxy's logger at the default and at the debug level (templ generate --watch -v). The response
// headers and every broadcast event must reach the client promptly.
func c19ThroughProxy(e *emitter) {
	if !e.mine("viaproxy") {
		return
	}
	c19Current = nil
	tgt, _ := url.Parse("http://127.0.0.1:1")
	for _, lv := range []struct {
		name  string
		level slog.Level
	}{{"info", slog.LevelInfo}, {"debug", slog.LevelDebug}} {
		log := slog.New(slog.NewJSONHandler(io.Discard, &slog.HandlerOptions{Level: lv.level}))
		ph := gproxy.New(log, "127.0.0.1", 0, tgt)
		front := httptest.NewServer(ph)
		ctx, cancel := context.WithCancel(context.Background())
		type res struct {
			resp *http.Response
			err  error
		}
		rc := make(chan res, 1)
		go func() {
			req, _ := http.NewRequestWithContext(ctx, "GET", front.URL+"/_templ/reload/events", nil)
			resp, err := http.DefaultTransport.RoundTrip(req)
			rc <- res{resp, err}
		}()
		headers, events := false, 0
		const n = 3
		select {
		case r := <-rc:
			if r.err == nil {
				headers = r.resp.Header.Get("Content-Type") == "text/event-stream"
				lines := make(chan string, 64)
				go func() {
					sc := bufio.NewScanner(r.resp.Body)
					for sc.Scan() {
						lines <- sc.Text()
					}
					close(lines)
				}()
				for i := 0; i < n; i++ {
					if i == n-1 { // the last one the way the notify command does it
						if pr, err := http.Post(front.URL+"/_templ/reload/events", "text/plain", nil); err == nil {
							pr.Body.Close()
						}
					} else {
						ph.SendSSE("message", "reload")
					}
					deadline := time.After(2 * time.Second)
				wait:
					for {
						select {
						case l, ok := <-lines:
							if !ok {
								break wait
							}
							if l == "data: reload" {
								events++
								break wait
							}
						case <-deadline:
							break wait
						}
					}
				}
				cancel()
				r.resp.Body.Close()
			}
		case <-time.After(2 * time.Second):
			// the response headers did not arrive: the stream is held back
			for i := 0; i < n; i++ {
				ph.SendSSE("message", "reload")
			}
		}
		cancel()
		front.CloseClientConnections()
		front.Close()
		e.emit("viaproxy "+lv.name, "viaproxy", lv.name, b01(headers), fmt.Sprint(n), fmt.Sprint(events))
	}
}
