package main

import (
	"fmt"
	"strings"

	parser "github.com/a-h/templ/parser/v2"
)

// astser: wire format of a template body as the REAL parser built it (read by lean/TemplVerif/Drive/AstParse.lean):
// comma-separated tokens, prefix notation with explicit counts, strings in hex. Source ranges are left out.

type astWriter struct{ toks []string }

func (w *astWriter) t(s ...string) { w.toks = append(w.toks, s...) }
func (w *astWriter) n(i int)       { w.toks = append(w.toks, fmt.Sprint(i)) }
func (w *astWriter) b(b bool) {
	if b {
		w.t("1")
	} else {
		w.t("0")
	}
}
func (w *astWriter) trail(ts parser.TrailingSpace) {
	switch ts {
	case parser.SpaceNone:
		w.t("0")
	case parser.SpaceHorizontal:
		w.t("1")
	default:
		w.t("2")
	}
}

func (w *astWriter) attrs(as []parser.Attribute) error {
	w.n(len(as))
	for _, a := range as {
		if err := w.attr(a); err != nil {
			return err
		}
	}
	return nil
}

func (w *astWriter) attr(a parser.Attribute) error {
	switch a := a.(type) {
	case parser.BoolConstantAttribute:
		w.t("BC", hx(a.Name))
	case parser.ConstantAttribute:
		w.t("CA", hx(a.Name), hx(a.Value))
		w.b(a.SingleQuote)
	case parser.BoolExpressionAttribute:
		w.t("BE", hx(a.Name), hx(a.Expression.Value))
	case parser.ExpressionAttribute:
		w.t("EA", hx(a.Name), hx(a.Expression.Value))
	case parser.SpreadAttributes:
		w.t("SP", hx(a.Expression.Value))
	case parser.ConditionalAttribute:
		w.t("CO", hx(a.Expression.Value))
		if err := w.attrs(a.Then); err != nil {
			return err
		}
		return w.attrs(a.Else)
	default:
		return fmt.Errorf("unknown attribute %T", a)
	}
	return nil
}

func (w *astWriter) nodes(ns []parser.Node) error {
	w.n(len(ns))
	for _, n := range ns {
		if err := w.node(n); err != nil {
			return err
		}
	}
	return nil
}

func (w *astWriter) node(n parser.Node) error {
	switch n := n.(type) {
	case parser.DocType:
		w.t("DT", hx(n.Value))
	case parser.Element:
		w.t("EL", hx(n.Name))
		if err := w.attrs(n.Attributes); err != nil {
			return err
		}
		if err := w.nodes(n.Children); err != nil {
			return err
		}
		w.trail(n.TrailingSpace)
		w.b(n.IndentAttrs)
		w.b(n.IndentChildren)
	case parser.HTMLComment:
		w.t("HC", hx(n.Contents))
	case parser.ChildrenExpression:
		w.t("CH")
	case parser.RawElement:
		w.t("RE", hx(n.Name))
		if err := w.attrs(n.Attributes); err != nil {
			return err
		}
		w.t(hx(n.Contents))
	case parser.ScriptElement:
		w.t("SE")
		if err := w.attrs(n.Attributes); err != nil {
			return err
		}
		w.n(len(n.Contents))
		for _, c := range n.Contents {
			if c.Value != nil {
				w.t("SV", hx(*c.Value))
			} else if c.GoCode != nil {
				w.t("SG", hx(c.GoCode.Expression.Value))
				w.b(c.InsideStringLiteral)
				w.t(hx(string(c.GoCode.TrailingSpace)))
			} else {
				return fmt.Errorf("empty script contents")
			}
		}
	case parser.ForExpression:
		w.t("FO", hx(n.Expression.Value))
		return w.nodes(n.Children)
	case parser.CallTemplateExpression:
		w.t("CT", hx(n.Expression.Value))
	case parser.TemplElementExpression:
		w.t("TE", hx(n.Expression.Value))
		return w.nodes(n.Children)
	case parser.IfExpression:
		w.t("IF", hx(n.Expression.Value))
		if err := w.nodes(n.Then); err != nil {
			return err
		}
		w.n(len(n.ElseIfs))
		for _, ei := range n.ElseIfs {
			w.t(hx(ei.Expression.Value))
			if err := w.nodes(ei.Then); err != nil {
				return err
			}
		}
		return w.nodes(n.Else)
	case parser.SwitchExpression:
		w.t("SW", hx(n.Expression.Value))
		w.n(len(n.Cases))
		for _, c := range n.Cases {
			w.t(hx(c.Expression.Value))
			if err := w.nodes(c.Children); err != nil {
				return err
			}
		}
	case parser.StringExpression:
		w.t("SX", hx(n.Expression.Value))
		w.trail(n.TrailingSpace)
	case parser.GoCode:
		w.t("GC", hx(n.Expression.Value))
		w.trail(n.TrailingSpace)
		w.b(n.Multiline)
	case parser.Whitespace:
		w.t("WS", hx(n.Value))
	case parser.Text:
		w.t("TX", hx(n.Value))
		w.trail(n.TrailingSpace)
	case parser.GoComment:
		w.t("GM", hx(n.Contents))
		w.b(n.Multiline)
	default:
		return fmt.Errorf("unknown node %T", n)
	}
	return nil
}

// astBody serialises the children of a template.
func astBody(ns []parser.Node) (string, error) {
	w := &astWriter{}
	if err := w.nodes(ns); err != nil {
		return "", err
	}
	return strings.Join(w.toks, ","), nil
}

// astExpressions lists every Go expression text of a template body with the role it plays.
type astExpr struct {
	role string // str, bool, for, switch, case, call, spread, class, style, url, script, attr, js, gocode
	text string
	el   string
	name string
}

func astExpressions(ns []parser.Node) []astExpr {
	var out []astExpr
	var attrs func(el string, as []parser.Attribute)
	attrs = func(el string, as []parser.Attribute) {
		for _, a := range as {
			switch a := a.(type) {
			case parser.BoolExpressionAttribute:
				out = append(out, astExpr{"bool", a.Expression.Value, el, a.Name})
			case parser.ExpressionAttribute:
				out = append(out, astExpr{"attr", a.Expression.Value, el, a.Name})
			case parser.SpreadAttributes:
				out = append(out, astExpr{"spread", a.Expression.Value, el, ""})
			case parser.ConditionalAttribute:
				out = append(out, astExpr{"bool", a.Expression.Value, el, ""})
				attrs(el, a.Then)
				attrs(el, a.Else)
			}
		}
	}
	var walk func(ns []parser.Node)
	walk = func(ns []parser.Node) {
		for _, n := range ns {
			switch n := n.(type) {
			case parser.Element:
				attrs(n.Name, n.Attributes)
				walk(n.Children)
			case parser.RawElement:
				attrs(n.Name, n.Attributes)
			case parser.ScriptElement:
				attrs("script", n.Attributes)
				for _, c := range n.Contents {
					if c.GoCode != nil {
						out = append(out, astExpr{"js", c.GoCode.Expression.Value, "", ""})
					}
				}
			case parser.ForExpression:
				out = append(out, astExpr{"for", n.Expression.Value, "", ""})
				walk(n.Children)
			case parser.CallTemplateExpression:
				out = append(out, astExpr{"call", n.Expression.Value, "", ""})
			case parser.TemplElementExpression:
				out = append(out, astExpr{"call", n.Expression.Value, "", ""})
				walk(n.Children)
			case parser.IfExpression:
				out = append(out, astExpr{"bool", n.Expression.Value, "", ""})
				walk(n.Then)
				for _, ei := range n.ElseIfs {
					out = append(out, astExpr{"bool", ei.Expression.Value, "", ""})
					walk(ei.Then)
				}
				walk(n.Else)
			case parser.SwitchExpression:
				cases := make([]string, len(n.Cases))
				for i, c := range n.Cases {
					cases[i] = c.Expression.Value
				}
				out = append(out, astExpr{"switch", n.Expression.Value, strings.Join(cases, "\x00"), ""})
				for _, c := range n.Cases {
					walk(c.Children)
				}
			case parser.StringExpression:
				out = append(out, astExpr{"str", n.Expression.Value, "", ""})
			case parser.GoCode:
				out = append(out, astExpr{"gocode", n.Expression.Value, "", ""})
			}
		}
	}
	walk(ns)
	return out
}
