package main

import (
	"fmt"
	"strings"
)

// tgen: grammar-based generator of templ SOURCE TEXT (so that the real parser decides the tree). Every construct is
// produced in several spellings (single-line, multi-line, padded, unpadded). The package it generates compiles against
// the helper declarations in tgenPrelude when a batch is built (C02 / C13 / C16); for parser / formatter / source-map
// properties only parse + generate + gofmt acceptance matters.

type tgen struct {
	r        *rng
	depth    int
	inWrap   bool // inside a template that may use { children... }
	counts   map[string]int
	noScript bool
	oracle   bool // C02: every Go expression is a call of a c02oracle function with a key
	plain    bool // C09 printer fragment: single-line expressions without comments, no {{ }} blocks, no script/style elements
	loopVars []string
}

// key picks an oracle key from a small pool, so that the same expression is sometimes evaluated at several places.
func (g *tgen) key() string { return fmt.Sprintf("k%d", g.r.intn(12)) }

// deco wraps an expression in semantically neutral decorations.
func (g *tgen) deco(e string) string {
	switch g.r.intn(8) {
	case 0:
		return e + " // c\n"
	case 1:
		return e + " /* c */"
	case 2:
		return "(" + e + ")"
	default:
		return e
	}
}

func (g *tgen) pickStr() string {
	if g.plain {
		return g.r.pick([]string{"s", "t", `"lit"`, `fmt.Sprintf("%s-%d", s, n)`, "strErr(t)", "p.Name", `s + t`, "items[0]", `fmt.Sprint(n)`})
	}
	if !g.oracle {
		return g.r.pick(tgStrExprs)
	}
	if len(g.loopVars) > 0 && g.r.chance(1, 3) {
		return g.r.pick(g.loopVars)
	}
	switch g.r.intn(8) {
	case 0:
		return g.deco(fmt.Sprintf(`SE("%s")`, g.key()))
	case 1:
		return fmt.Sprintf(`S("%s") + S("%s")`, g.key(), g.key())
	case 2:
		return g.r.pick([]string{`"lit"`, "`raw <b>`", `"a\"b"`})
	default:
		return g.deco(fmt.Sprintf(`S("%s")`, g.key()))
	}
}

func (g *tgen) pickBool() string {
	if !g.oracle {
		return g.r.pick(tgBoolExprs)
	}
	switch g.r.intn(8) {
	case 0:
		return fmt.Sprintf(`!B("%s")`, g.key())
	case 1:
		return fmt.Sprintf(`B("%s") && B("%s")`, g.key(), g.key())
	case 2:
		return fmt.Sprintf(`B("%s") || B("%s")`, g.key(), g.key())
	case 3:
		return g.r.pick([]string{"true", "false"})
	default:
		return fmt.Sprintf(`B("%s")`, g.key())
	}
}

const tgenPrelude = `package x

import "fmt"

type P struct {
	Name string
	Link templ.SafeURL
	On   bool
}

func strErr(s string) (string, error) { return s, nil }

var _ = fmt.Sprint

css box(w string) {
	background-color: #fff;
	width: { w };
}

css grid() {
	grid-template-areas: "head  head" "nav   main";
	content: "\201C  \201D";
	font-family: "A  B",	serif;
}

script hello(name string) {
	console.log(name);
}

templ leaf(x string) {
	<i>{ x }</i>
}

templ wrap(title string) {
	<section title={ title }>
		{ children... }
	</section>
}

`

const tgenSig = "s string, t string, b bool, c bool, n int, items []string, u templ.SafeURL, attrs templ.Attributes, comp templ.Component, p P"

func (g *tgen) note(k string) { g.counts[k]++ }

var tgWords = []string{"hello", "world", "a", "b c", "x&amp;y", "&lt;tag&gt;", "&nbsp;", "é", "日本", "1 &lt; 2", "it's", "“q”", "&#34;", "€5"}
var tgStrExprs = []string{"s // c\n", "s", "t", `"lit"`, `"a\"b"`, "`raw`", `fmt.Sprintf("%s-%d", s, n)`, "strErr(t)", "p.Name", `s + t`, "items[0]", `fmt.Sprint(n)`, "s /* c */",
	// one line as written, several lines after gofmt
	`struct{a string; b string}{s, "y"}.a`, `func() string { if b { return s }; return t }()`}
var tgBoolExprs = []string{"b", "c", "!b", "b && c", "n > 1", "p.On", `s == "x"`, "len(items) > 0", "true", "false"}
var tgBlock = []string{"div", "p", "section", "ul", "article", "main", "h1", "blockquote", "form", "table"}
var tgInline = []string{"span", "a", "b", "em", "strong", "button", "label", "i", "code", "small"}
var tgVoid = []string{"br", "hr", "img", "input", "meta", "link"}

func (g *tgen) indent(n int) string { return strings.Repeat("\t", n) }

func (g *tgen) text() string {
	g.note("text")
	n := 1 + g.r.intn(3)
	parts := make([]string, n)
	for i := range parts {
		parts[i] = g.r.pick(tgWords)
	}
	return strings.Join(parts, " ")
}

func (g *tgen) strExpr() string {
	g.note("stringexpr")
	e := g.pickStr()
	switch g.r.intn(4) {
	case 0:
		return "{" + e + "}"
	case 1:
		return "{  " + e + "  }"
	default:
		return "{ " + e + " }"
	}
}

func (g *tgen) attr(el string, ind int) string {
	switch k := g.r.intn(16); {
	case k < 3:
		g.note("attr-const")
		if g.plain {
			return fmt.Sprintf(`%s="%s"`, g.r.pick([]string{"id", "title", "data-x", "name", "lang"}), g.r.pick([]string{"v", "a b", "", "é", "x y", "1"}))
		}
		v := g.r.pick([]string{"v", "a b", "x&amp;y", "it's", "&lt;", "", "é", "1&quot;2", "a&#39;b", "/s?q=1&amp;copy=2&amp;lt=5", "a&amp;amp;b", "&amp;#65", "x &amp; y", "&copy", "a&b", "&amp;reg"})
		if g.r.chance(1, 4) && !strings.Contains(v, "'") {
			return fmt.Sprintf("data-k='%s'", strings.ReplaceAll(v, "&quot;", "\""))
		}
		if g.r.chance(1, 6) && !strings.ContainsAny(v, " '\"=<>`") && v != "" {
			// an unquoted value (ended by the white space that follows it); character references count there too
			return fmt.Sprintf("%s=%s ", g.r.pick([]string{"title", "data-x", "lang"}), v)
		}
		return fmt.Sprintf(`%s="%s"`, g.r.pick([]string{"id", "title", "data-x", "name", "lang"}), v)
	case k == 3:
		g.note("attr-boolconst")
		return g.r.pick([]string{"hidden", "disabled", "data-flag", "required"})
	case k < 6:
		g.note("attr-expr")
		if !g.plain && !g.oracle && g.r.chance(1, 8) {
			// multi-line expression with a raw string / block comment that spans lines
			g.note("attr-expr-multiline")
			return g.r.pick([]string{"data-m={\n" + g.indent(ind+2) + "`a\nb`,\n" + g.indent(ind+1) + "}", "data-m={\n" + g.indent(ind+2) + "s, /* c1\n c2 */\n" + g.indent(ind+1) + "}",
				"data-m={\n" + g.indent(ind+2) + "s,\n" + g.indent(ind+2) + "t,\n" + g.indent(ind+1) + "}",
				// a single-line expression list ending in a line comment that no space precedes; the brace is on the next line
				"class={ \"btn\", s,\t// note\n" + g.indent(ind+1) + "}", "class={ \"link\", t,// note\n" + g.indent(ind+1) + "}", "data-m={ s,\t\t// why\n" + g.indent(ind+1) + "}"})
		}
		return fmt.Sprintf("%s={ %s }", g.r.pick([]string{"title", "data-v", "alt", "value", "placeholder"}), g.pickStr())
	case k == 6:
		g.note("attr-boolexpr")
		return fmt.Sprintf("%s?={ %s }", g.r.pick([]string{"disabled", "checked", "hidden"}), g.pickBool())
	case k == 7:
		g.note("attr-spread")
		if g.oracle {
			return fmt.Sprintf(`{ A("%s")... }`, g.key())
		}
		return g.r.pick([]string{"{ attrs... }", "{ attrs... }", "{ attrs ... }", "{attrs...}", "{ attrs\n" + g.indent(ind+2) + "... }"})
	case k == 8:
		g.note("attr-class")
		if g.oracle {
			return g.r.pick([]string{fmt.Sprintf(`class={ CL("%s") }`, g.key()), fmt.Sprintf(`class={ "st", CL("%s") }`, g.key()), `class="static cls"`})
		}
		return g.r.pick([]string{`class={ "a", templ.KV("b", b) }`, `class={ s }`, `class={ "x " + t, box(s) }`, `class={ templ.Classes("k", t) }`, `class="static cls"`})
	case k == 9:
		g.note("attr-style")
		if g.oracle {
			return g.r.pick([]string{fmt.Sprintf(`style={ ST("%s") }`, g.key()), `style="margin:0"`})
		}
		return g.r.pick([]string{`style={ "color:red" }`, `style={ map[string]string{"color": s} }`, `style={ templ.KV("width", t) }`, `style="margin:0"`})
	case k == 10:
		g.note("attr-url")
		if g.oracle {
			if el == "form" {
				return fmt.Sprintf(`action={ U("%s") }`, g.key())
			}
			if el != "a" {
				return fmt.Sprintf(`href={ S("%s") }`, g.key())
			}
			return g.r.pick([]string{fmt.Sprintf(`href={ U("%s") }`, g.key()), `href="/static"`})
		}
		if el == "form" {
			return "action={ u }"
		}
		return g.r.pick([]string{"href={ u }", "href={ templ.URL(s) }", "href={ p.Link }", `href="/static"`})
	case k == 11:
		g.note("attr-script")
		if g.oracle {
			return g.r.pick([]string{fmt.Sprintf(`onclick={ H("%s") }`, g.key()), `onclick="alert(1)"`, fmt.Sprintf(`onmouseover={ H("%s") }`, g.key()), fmt.Sprintf(`hx-on::click={ H("%s") }`, g.key())})
		}
		return g.r.pick([]string{"onclick={ hello(s) }", `onclick="alert(1)"`, "onmouseover={ hello(t) }", `hx-on::click={ hello(s) }`})
	case k < 15 && g.depth > 0:
		g.note("attr-conditional")
		g.depth--
		thn := g.attr(el, ind+1)
		els := ""
		if g.r.chance(1, 2) {
			els = " else {\n" + g.indent(ind+2) + g.attr(el, ind+1) + "\n" + g.indent(ind+1) + "}"
		}
		g.depth++
		if g.r.chance(1, 3) && els == "" && !strings.Contains(thn, "\n") {
			return fmt.Sprintf("if %s { %s }", g.pickBool(), thn)
		}
		return fmt.Sprintf("if %s {\n%s%s\n%s}%s", g.pickBool(), g.indent(ind+2), thn, g.indent(ind+1), els)
	default:
		g.note("attr-const")
		return `role="x"`
	}
}

func (g *tgen) attrs(el string, ind int) string {
	n := g.r.intn(4)
	if n == 0 {
		return ""
	}
	as := make([]string, n)
	multi := g.r.chance(1, 4)
	for i := range as {
		as[i] = g.attr(el, ind)
		if strings.Contains(as[i], "\n") {
			multi = true
		}
	}
	if multi {
		g.note("attrs-multiline")
		return "\n" + g.indent(ind+1) + strings.Join(as, "\n"+g.indent(ind+1)) + "\n" + g.indent(ind)
	}
	return " " + strings.Join(as, g.r.pick([]string{" ", " ", "  "}))
}

// children renders a node list either on one line or one per line.
func (g *tgen) children(ind int, n int) (string, bool) {
	if g.depth <= 0 {
		return g.text(), false
	}
	nodes := make([]string, 0, n)
	multiline := false
	for i := 0; i < n; i++ {
		s, ml := g.node(ind + 1)
		nodes = append(nodes, s)
		multiline = multiline || ml
	}
	if multiline && g.r.chance(1, 4) {
		// glued: a node that spans lines follows its sibling on the same line, with or without a blank between them
		g.note("children-glued")
		sep := g.r.pick([]string{"", "", " "})
		return strings.Join(nodes, sep), true
	}
	if !multiline && g.r.chance(1, 2) {
		g.note("children-singleline")
		sep := g.r.pick([]string{"", " ", " ", "  "})
		return strings.Join(nodes, sep), false
	}
	g.note("children-multiline")
	return "\n" + g.indent(ind+1) + strings.Join(nodes, "\n"+g.indent(ind+1)) + "\n" + g.indent(ind), true
}

func (g *tgen) element(ind int) (string, bool) {
	switch k := g.r.intn(10); {
	case k < 4:
		el := g.r.pick(tgBlock)
		g.note("element-block")
		g.depth--
		ch, _ := g.children(ind, 1+g.r.intn(3))
		g.depth++
		a := g.attrs(el, ind)
		return fmt.Sprintf("<%s%s>%s</%s>", el, a, ch, el), strings.Contains(a+ch, "\n")
	case k < 8:
		el := g.r.pick(tgInline)
		g.note("element-inline")
		g.depth--
		ch, _ := g.children(ind, 1+g.r.intn(2))
		g.depth++
		a := g.attrs(el, ind)
		return fmt.Sprintf("<%s%s>%s</%s>", el, a, ch, el), strings.Contains(a+ch, "\n")
	case k == 8:
		el := g.r.pick(tgVoid)
		g.note("element-void")
		a := g.attrs(el, ind)
		return fmt.Sprintf("<%s%s%s>", el, a, g.r.pick([]string{"", "/", " /"})), strings.Contains(a, "\n")
	default:
		if g.noScript || g.plain {
			return "<hr/>", false
		}
		g.note("element-raw")
		if g.oracle {
			return g.r.pick([]string{
				"<style>p { color: red; } /* { not go } */</style>",
				"<script>var a = 1; if (a < 2) { a = \"</p>\"; }</script>",
				fmt.Sprintf("<script>const v = {{ J(\"%s\") }}; const w = '{{ J(\"%s\") }}'; const q = `{{ J(\"%s\") }}`;</script>", g.key(), g.key(), g.key()),
				fmt.Sprintf("<script type=\"text/javascript\" onload={ H(\"%s\") }>let z = {{ J(\"%s\") }}\n</script>", g.key(), g.key()),
			}), true
		}
		return g.r.pick([]string{
			"<style>p { color: red; } /* { not go } */</style>",
			"<script>var a = 1; if (a < 2) { a = \"</p>\"; }</script>",
			"<script>const v = {{ s }}; const w = '{{ t }}'; const q = `{{ s }}`;</script>",
			"<script type=\"text/javascript\" src=\"/x.js\"></script>",
			"<script>\n" + g.indent(ind+1) + "// comment {{ not }}\n" + g.indent(ind+1) + "const z = \"{{ s }}\";\n" + g.indent(ind) + "</script>",
		}), true
	}
}

func (g *tgen) body(ind int, n int) string {
	lines := make([]string, 0, n)
	for i := 0; i < n; i++ {
		s, _ := g.node(ind)
		lines = append(lines, g.indent(ind)+s)
	}
	return strings.Join(lines, "\n")
}

// closer returns what separates the end of a control-flow body from its closing brace: normally a line break,
// sometimes nothing (the brace directly follows the last child).
func (g *tgen) closer(ind int) string {
	if g.r.chance(1, 10) {
		g.note("brace-glued")
		return ""
	}
	return "\n" + g.indent(ind)
}

// node returns the text of one node and whether it spans lines (or must stand on its own line).
func (g *tgen) node(ind int) (string, bool) {
	if g.depth <= 0 {
		if g.r.chance(1, 2) {
			return g.strExpr(), false
		}
		return g.text(), false
	}
	switch k := g.r.intn(30); {
	case k < 7:
		return g.element(ind)
	case k < 11:
		return g.text(), false
	case k < 15:
		return g.strExpr(), false
	case k < 17:
		g.note("if")
		g.depth--
		s := fmt.Sprintf("if %s {\n%s%s}", g.pickBool(), g.body(ind+1, 1+g.r.intn(2)), g.closer(ind))
		if g.r.chance(1, 3) {
			g.note("else-if")
			if g.r.chance(1, 5) {
				// an empty branch still decides that the branches after it are not taken
				s += fmt.Sprintf(" else if %s {\n%s}", g.pickBool(), g.indent(ind))
			} else {
				s += fmt.Sprintf(" else if %s {\n%s\n%s}", g.pickBool(), g.body(ind+1, 1), g.indent(ind))
			}
		}
		if g.r.chance(1, 2) {
			g.note("else")
			s += fmt.Sprintf(" else {\n%s%s}", g.body(ind+1, 1+g.r.intn(2)), g.closer(ind))
		}
		g.depth++
		return s, true
	case k < 19:
		g.note("for")
		g.depth--
		hdr := g.r.pick([]string{"for _, item := range items", "for i := 0; i < n; i++", "for i, item := range items", "for range 2"})
		saved := g.loopVars
		if g.oracle {
			k := g.key()
			hdr = g.r.pick([]string{fmt.Sprintf(`for _, item := range IT("%s")`, k), "for i := 0; i < 2; i++", fmt.Sprintf(`for i, item := range IT("%s")`, k), "for range 2"})
			g.loopVars = nil // shadowing would need scoping in the value tables: inner loops rebind the same names
			if strings.Contains(hdr, "item") {
				g.loopVars = append(g.loopVars, "item")
			}
			if strings.Contains(hdr, "for i") {
				g.loopVars = append(g.loopVars, "fmt.Sprint(i)")
			}
		}
		inner := g.body(ind+1, 1+g.r.intn(2))
		if strings.Contains(hdr, "item") && g.r.chance(1, 2) {
			inner += "\n" + g.indent(ind+1) + "<li>{ item }</li>"
		}
		if g.oracle {
			// keep the Go compiler quiet about unused loop variables
			if strings.Contains(hdr, "item") {
				inner = g.indent(ind+1) + "{{ _ = item }}\n" + inner
			}
			if strings.Contains(hdr, "for i") {
				inner = g.indent(ind+1) + "{{ _ = i }}\n" + inner
			}
		}
		g.loopVars = saved
		g.depth++
		return fmt.Sprintf("%s {\n%s%s}", hdr, inner, g.closer(ind)), true
	case k < 21:
		g.note("switch")
		g.depth--
		s := fmt.Sprintf("switch %s {\n", g.r.pick([]string{"s", "n", "t + s", "len(items)"}))
		caseLits := []string{`"a"`, `"b", "c"`, "1", "2, 3"}
		if g.oracle {
			s = fmt.Sprintf("switch S(\"%s\") {\n", g.key())
			caseLits = []string{`"a"`, `"b", "c"`, `"d"`, `"x y"`}
		}
		first := g.r.intn(len(caseLits))
		for i := 1 + g.r.intn(2); i > 0; i-- {
			s += fmt.Sprintf("%scase %s:\n%s\n", g.indent(ind+1), caseLits[(first+i)%len(caseLits)], g.body(ind+2, 1))
		}
		if g.r.chance(1, 2) {
			s += fmt.Sprintf("%sdefault:\n%s\n", g.indent(ind+1), g.body(ind+2, 1))
		}
		g.depth++
		return s + g.indent(ind) + "}", true
	case k < 24:
		g.depth--
		defer func() { g.depth++ }()
		if g.oracle {
			switch g.r.intn(4) {
			case 0:
				g.note("call")
				return fmt.Sprintf(`@C("%s")`, g.key()), true
			case 1:
				g.note("call-legacy")
				return fmt.Sprintf(`{! C("%s") }`, g.key()), true
			case 2:
				g.note("call-block-inline")
				return fmt.Sprintf("@C(\"%s\") {\n%s%s\n%s}", g.key(), g.indent(ind+1), g.text(), g.indent(ind)), true
			default:
				g.note("call-block")
				return fmt.Sprintf("@C(\"%s\") {\n%s\n%s}", g.key(), g.body(ind+1, 1+g.r.intn(2)), g.indent(ind)), true
			}
		}
		switch g.r.intn(6) {
		case 0:
			g.note("call")
			if g.plain {
				return "@leaf(" + g.r.pick([]string{"s", "t", `"x"`, "p.Name"}) + ")", true
			}
			return "@leaf(" + g.r.pick([]string{"s", "t", `"x"`, "p.Name", "func() string { return s }()", "func(a string) string {\n" + g.indent(ind+1) + "return a\n" + g.indent(ind) + "}(t)",
				// gofmt removes lines (runs of blank lines) in front of a raw string that spans lines
				"s +\n\n\n" + g.indent(ind+1) + "`r1\nr2\n\tr3`", "t +\n\n\n\n" + g.indent(ind+1) + "s +\n" + g.indent(ind+1) + "`r1\n  r2`"}) + ")", true
		case 1:
			g.note("call-block")
			return fmt.Sprintf("@wrap(%s) {\n%s\n%s}", g.r.pick([]string{"s", `"t"`}), g.body(ind+1, 1+g.r.intn(2)), g.indent(ind)), true
		case 2:
			g.note("call-value")
			return "@comp", true
		case 3:
			g.note("call-script")
			return "@hello(s)", true
		case 4:
			g.note("call-legacy")
			return g.r.pick([]string{"{! leaf(s) }", "{! leaf( s ) }", "{! leaf(s+t) }", "{! leaf(s +\n\n\n" + g.indent(ind+1) + "`r1\nr2`) }"}), true
		default:
			g.note("call-block-inline")
			return "@wrap(t) {\n" + g.indent(ind+1) + g.text() + "\n" + g.indent(ind) + "}", true
		}
	case k == 24:
		if g.inWrap {
			g.note("children-slot")
			return "{ children... }", true
		}
		return g.strExpr(), false
	case k == 25 && g.plain:
		return g.text(), false
	case k == 25:
		g.note("gocode")
		if g.oracle {
			return g.r.pick([]string{fmt.Sprintf(`{{ _ = G("%s") }}`, g.key()), fmt.Sprintf("{{\n%s_ = G(\"%s\")\n%s}}", g.indent(ind+1), g.key(), g.indent(ind)), "{{ }}"}), true
		}
		return g.r.pick([]string{"{{ x := s + t }}", "{{ _ = n }}", "{{\n" + g.indent(ind+1) + "_ = n\n" + g.indent(ind) + "}}", "{{\n" + g.indent(ind+1) + "x := s + t\n" + g.indent(ind+1) + "_ = x\n" + g.indent(ind) + "}}", "{{ x := s + t; _ = x }}", "{{ if b { _ = n } }}", "{{ x := 1 // c\n" + g.indent(ind) + "}}", "{{ for i := 0; i < n; i++ { _ = i } }}", "{{\n" + g.indent(ind+1) + "y := len(items)\n" + g.indent(ind+1) + "_ = y\n" + g.indent(ind) + "}}"}), true
	case k == 26:
		g.note("htmlcomment")
		if g.plain {
			return g.r.pick([]string{"<!-- comment -->", "<!--c-->"}), true
		}
		return g.r.pick([]string{"<!-- comment -->", "<!--c-->", "<!-- multi\n" + g.indent(ind) + "line -->"}), true
	case k == 27:
		g.note("gocomment")
		if g.plain {
			return g.r.pick([]string{"// go comment", "/* block comment */"}), true
		}
		return g.r.pick([]string{"// go comment", "/* block comment */", "/* multi\n" + g.indent(ind) + "   line */"}), true
	default:
		return g.element(ind)
	}
}

// file generates a whole templ file: prelude + one or two templates using the fixed signature.
func (g *tgen) file() string {
	var sb strings.Builder
	sb.WriteString(tgenPrelude)
	if g.r.chance(1, 6) {
		sb.WriteString("// top-level Go between templates\nvar topLevel = \"x\"\n" + g.r.pick([]string{"", "\t// indented trailing comment\n", "// trailing comment\n", "  /* block */\n"}) + "\n")
	}
	n := 1 + g.r.intn(2)
	for i := 0; i < n; i++ {
		g.inWrap = i > 0
		name := fmt.Sprintf("T%d", i)
		recv := ""
		if g.r.chance(1, 8) {
			recv = "(p P) "
		}
		sig := tgenSig
		if recv != "" {
			sig = strings.Replace(tgenSig, ", p P", "", 1)
		}
		// spellings: extra blanks between the keyword, the receiver/name and the brace
		kwGap := g.r.pick([]string{" ", " ", " ", "  ", "\t", "   "})
		braceGap := g.r.pick([]string{" ", " ", " ", "  ", ""})
		fmt.Fprintf(&sb, "templ%s%s%s(%s)%s{\n", kwGap, recv, name, sig, braceGap)
		if i == 0 && g.r.chance(1, 8) {
			sb.WriteString("\t<!DOCTYPE html>\n")
			g.note("doctype")
		}
		sb.WriteString(g.body(1, 1+g.r.intn(4)))
		sb.WriteString("\n}\n\n")
	}
	return sb.String()
}

func newTgen(r *rng, depth int) *tgen {
	return &tgen{r: r, depth: depth, counts: map[string]int{}}
}
