module verif/harness

go 1.23.0

require (
	github.com/a-h/parse v0.0.0-20250122154542-74294addb73e
	github.com/a-h/templ v0.0.0
	github.com/andybalholm/brotli v1.1.0
	github.com/fsnotify/fsnotify v1.7.0
	golang.org/x/net v0.37.0
)

require (
	github.com/cenkalti/backoff/v4 v4.3.0 // indirect
	github.com/cli/browser v1.3.0 // indirect
	github.com/natefinch/atomic v1.0.1 // indirect
	golang.org/x/mod v0.20.0 // indirect
	golang.org/x/sync v0.10.0 // indirect
	golang.org/x/sys v0.31.0 // indirect
	golang.org/x/tools v0.24.0 // indirect
)

replace github.com/a-h/templ => /repo
