package main

import (
	"time"
	"bytes"
	"compress/gzip"
	"fmt"
	"io"
	"net/http"
	"net/http/httptest"
	"net/url"
	"context"
	"net"
	"runtime"
	"strconv"
	"crypto/sha256"
	"encoding/hex"
	"strings"
	"sync"

	"github.com/a-h/templ/cmd/templ/generatecmd/proxy"
	"github.com/andybalholm/brotli"
	"golang.org/x/net/html"
)

func init() { register("C20", runC20) }

type c20Case struct {
	skip, ct, enc, csp string
	hx                 bool
	wire               []byte // body as the upstream sends it
	decoded            string // what a browser would decode ("" with decErr when undecodable)
	decErr             bool
}

func gz(s string) []byte {
	var b bytes.Buffer
	w := gzip.NewWriter(&b)
	w.Write([]byte(s))
	w.Close()
	return b.Bytes()
}

func br(s string) []byte {
	var b bytes.Buffer
	w := brotli.NewWriter(&b)
	w.Write([]byte(s))
	w.Close()
	return b.Bytes()
}

func decodeAs(enc string, wire []byte) (string, bool) {
	switch enc {
	case "gzip":
		r, err := gzip.NewReader(bytes.NewReader(wire))
		if err != nil {
			return "", false
		}
		b, err := io.ReadAll(r)
		return string(b), err == nil
	case "br":
		b, err := io.ReadAll(brotli.NewReader(bytes.NewReader(wire)))
		return string(b), err == nil
	default:
		return string(wire), true
	}
}

// insertOracle is an independent x/net/html implementation of "append the reload script (no nonce) to the
// first body element"; ok=false when there is nothing to append to.
func insertOracle(doc string) (string, bool) {
	n, err := html.Parse(strings.NewReader(doc))
	if err != nil {
		return "", false
	}
	var body *html.Node
	var walk func(*html.Node)
	walk = func(x *html.Node) {
		if body != nil {
			return
		}
		if x.Type == html.ElementNode && x.Data == "body" {
			body = x
			return
		}
		for c := x.FirstChild; c != nil; c = c.NextSibling {
			walk(c)
		}
	}
	walk(n)
	if body == nil {
		return "", false
	}
	body.AppendChild(&html.Node{Type: html.ElementNode, Data: "script", Attr: []html.Attribute{{Key: "src", Val: "/_templ/reload/script.js"}}})
	var buf bytes.Buffer
	if err := html.Render(&buf, n); err != nil {
		return "", false
	}
	return buf.String(), true
}

type smallBufListener struct{ net.Listener }

func (l smallBufListener) Accept() (net.Conn, error) {
	c, err := l.Listener.Accept()
	if tc, ok := c.(*net.TCPConn); ok {
		tc.SetWriteBuffer(16384)
	}
	return c, err
}

func runC20(e *emitter, tier string, seed uint64) {
	var mu sync.Mutex
	cases := map[string]*c20Case{}
	upstream := httptest.NewServer(http.HandlerFunc(func(w http.ResponseWriter, r *http.Request) {
		mu.Lock()
		c := cases[r.URL.Path]
		mu.Unlock()
		if c == nil {
			http.NotFound(w, r)
			return
		}
		if c.skip != "" {
			w.Header().Set("templ-skip-modify", c.skip)
		}
		if c.ct != "" {
			w.Header().Set("Content-Type", c.ct)
		} else {
			w.Header()["Content-Type"] = nil
		}
		if c.enc != "" {
			w.Header().Set("Content-Encoding", c.enc)
		}
		if c.csp != "" {
			w.Header().Set("Content-Security-Policy", c.csp)
		}
		w.Header().Set("Content-Length", strconv.Itoa(len(c.wire)))
		w.WriteHeader(200)
		w.Write(c.wire)
	}))
	defer upstream.Close()
	target, _ := url.Parse(upstream.URL)
	ph := proxy.New(quietLog, "127.0.0.1", 0, target)
	// small socket buffers on both ends of the proxy->browser connection, so that a response whose body the
	// browser has not read yet is still held by the proxy (the overlap phase depends on that)
	front := httptest.NewServer(ph)
	defer front.Close()
	client := &http.Client{Transport: &http.Transport{DisableCompression: true}}
	frontSlow := httptest.NewUnstartedServer(ph)
	frontSlow.Listener = smallBufListener{frontSlow.Listener}
	frontSlow.Start()
	defer frontSlow.Close()
	clientSlow := &http.Client{Transport: &http.Transport{DisableCompression: true, DialContext: func(ctx context.Context, network, addr string) (net.Conn, error) {
		c, err := (&net.Dialer{}).DialContext(ctx, network, addr)
		if tc, ok := c.(*net.TCPConn); ok {
			tc.SetReadBuffer(16384)
		}
		return c, err
	}}}

	n := 0
	curFront, curTag := front.URL, ""
	run := func(c *c20Case) {
		n++
		path := fmt.Sprintf("/c/%d", n)
		key := strings.Join([]string{c.skip, c.ct, c.enc, c.csp, fmt.Sprint(c.hx), string(c.wire), curTag}, "\x00")
		if !e.mine(key) {
			return
		}
		mu.Lock()
		cases[path] = c
		mu.Unlock()
		req, _ := http.NewRequest("GET", curFront+path, nil)
		req.Header.Set("Accept-Encoding", "gzip, br, deflate")
		if c.hx {
			req.Header.Set("HX-Request", "true")
		}
		resp, err := client.Do(req)
		mu.Lock()
		delete(cases, path)
		mu.Unlock()
		if err != nil {
			e.emit(key, "mod", hx(c.skip), hx(c.ct), hx(c.enc), hx(c.csp), fmt.Sprint(c.hx), hx(string(c.wire)), "CLIENT-ERROR", "-", "-", "0", "-", "-", "-", "-", "0")
			return
		}
		body, _ := io.ReadAll(resp.Body)
		resp.Body.Close()
		dec, decOK := decodeAs(resp.Header.Get("Content-Encoding"), body)
		if len(c.decoded) > 1<<20 {
			// multi-megabyte documents: the comparisons are made here (the line protocol would carry tens of megabytes per
			// case); the driver gets their outcomes and the ends of the documents
			ins, ok := insertOracle(c.decoded)
			if c.enc != "" && c.enc != "gzip" && c.enc != "br" {
				// an encoding the proxy does not understand: the response passes through byte-identical
				e.emit(key, "big", hx(c.enc+" (passes through)"), fmt.Sprint(len(c.decoded)), strconv.Itoa(resp.StatusCode), b01(resp.Header.Get("Content-Encoding") == c.enc),
					b01(resp.Header.Get("Content-Length") == strconv.Itoa(len(body))), "1", b01(string(body) == string(c.wire)), hx("(bytes received)"), hx("(bytes sent by the upstream)"))
				return
			}
			tail := func(x string) string {
				if len(x) > 300 {
					return x[len(x)-300:]
				}
				return x
			}
			e.emit(key, "big", hx(c.enc), fmt.Sprint(len(c.decoded)), strconv.Itoa(resp.StatusCode), b01(resp.Header.Get("Content-Encoding") == c.enc),
				b01(resp.Header.Get("Content-Length") == strconv.Itoa(len(body))), b01(decOK), b01(ok && dec == ins), hx(tail(dec)), hx(tail(ins)))
			return
		}
		decField := hx(dec)
		if !decOK {
			decField = "UNDECODABLE"
		}
		origDec := hx(c.decoded)
		if c.decErr {
			origDec = "UNDECODABLE"
		}
		ins, ok := insertOracle(c.decoded)
		insField := hx(ins)
		if !ok || c.decErr {
			insField = "NONE"
		}
		// law monitor for the HTML parameter: rendering is a fixed point of parse+render
		stable := "1"
		if ok {
			if n2, err := html.Parse(strings.NewReader(ins)); err == nil {
				var b2 bytes.Buffer
				html.Render(&b2, n2)
				if b2.String() != ins {
					stable = "0"
				}
			}
		}
		e.emit(key, "mod", hx(c.skip), hx(c.ct), hx(c.enc), hx(c.csp), fmt.Sprint(c.hx), hx(string(c.wire)), origDec, insField,
			strconv.Itoa(resp.StatusCode), hx(resp.Header.Get("Content-Encoding")), hx(resp.Header.Get("Content-Length")), hx(string(body)), decField,
			hx(resp.Header.Get("Content-Type")), stable)
	}

	docs := []string{
		"", "<html><head></head><body><h1>hi</h1></body></html>", "<!DOCTYPE html><html><body>é 日本 😀</body></html>", "<p>no body tag</p>", "plain text",
		"<html><body><script>var x = '</body>';</script><p>a</p></body></html>", "<html><body><script src=\"/_templ/reload/script.js\"></script></body></html>",
		"<html><head><title>t</title></head><frameset><frame></frameset></html>", "<html><head><title>body</title></head><body><p>x</p></body></html>",
		"<!--body--><html><head><script>body</script></head><body>y</body></html>", "<!DOCTYPE body><html><body>z</body></html>", "<html><body>body</body></html>", "<body a=\"1\">x</body><body b=\"2\">y</body>", "<html><body><table><tr><td>1<td>2</table>",
		"<html><body>&amp;&lt;&nbsp;&copy;</body></html>", "<svg><body></body></svg>", "<html><body><template><body></body></template></body></html>", "\xff\xfe<body>", "<html><body>a\r\nb\rc</body></html>",
		"<html><head><title>T</title><noscript><img src=\"/pixel.gif\" width=\"1\" height=\"1\"></noscript><link rel=\"stylesheet\" href=\"/s.css\"></head><body><p>x</p></body></html>",
		"<html><head><noscript><link rel=\"stylesheet\" href=\"/n.css\"><style>p{}</style></noscript><title>T</title></head><body><noscript><p>enable scripts</p></noscript></body></html>",
		"<html><body><textarea></body></textarea></body></html>", strings.Repeat("<div>x</div>", 2000), "<html><body>" + strings.Repeat("y", 300000) + "</body></html>",
	}
	if tier == "thorough" {
		docs = append(docs, "<html><body>"+strings.Repeat("<p>z é</p>", 400000)+"</body></html>")
	}
	cts := []string{"text/html", "text/html; charset=utf-8", "text/htmlx", "application/json", "text/plain", "", "TEXT/HTML", " text/html", "application/xhtml+xml", "text/css"}
	encs := []string{"", "gzip", "br", "deflate", "zstd", "identity", "GZIP", "gzip, br", "x-gzip"}
	csps := []string{
		"", "default-src 'self'", "script-src 'nonce-abc123'", "default-src 'self'; script-src 'self' 'nonce-r4nd0m' https://cdn; style-src 'nonce-zz'",
		"script-src 'nonce-a' 'nonce-b'", "script-src 'self'; script-src 'nonce-late'", "script-src nonce-noquotes", "script-src\t'nonce-tab'", "script-src 'nonce-a\"b<c&d'",
		"Script-Src 'nonce-upper'", "ſcript-ſrc 'nonce-longs'", "SCRIPT-SRC 'nonce-allupper'", "script-src-elem 'nonce-elem'", "script-src", "script-src ;", ";;script-src  'nonce-x'  ;", "script-src 'nonce-'", "script-src ''nonce-q''", "script-src 'nonce-é'",
		"script-src 'nonce-nbsp'", "style-src 'nonce-s'; script-src 'nonce-t'",
	}
	skips := []string{"", "true", "false", "TRUE", "1"}
	mk := func(skip, ct, enc, csp string, hxr bool, doc string, corrupt bool) *c20Case {
		// header values reach the proxy trimmed of optional white space (HTTP field syntax): canonicalise here so
		// that the model sees what modifyResponse sees
		skip, ct, enc, csp = strings.TrimSpace(skip), strings.TrimSpace(ct), strings.TrimSpace(enc), strings.TrimSpace(csp)
		c := &c20Case{skip: skip, ct: ct, enc: enc, csp: csp, hx: hxr, decoded: doc}
		switch enc {
		case "gzip":
			c.wire = gz(doc)
		case "br":
			c.wire = br(doc)
		case "deflate", "zstd", "GZIP", "gzip, br", "x-gzip":
			c.wire = gz(doc) // opaque compressed bytes under a label the proxy does not understand
		default:
			c.wire = []byte(doc)
		}
		if corrupt && len(c.wire) > 4 {
			c.wire = c.wire[:len(c.wire)/2]
			d, ok := decodeAs(enc, c.wire)
			c.decoded, c.decErr = d, !ok
			if enc != "gzip" && enc != "br" {
				c.decErr = false
				c.decoded = string(c.wire)
			}
		}
		return c
	}
	// systematic: every doc x encoding with html content type; every content type / csp / skip with a fixed doc
	for _, d := range docs {
		for _, en := range encs {
			run(mk("", "text/html", en, "", false, d, false))
		}
	}
	// multi-megabyte documents (the quantifier says "sizes from empty to multi-megabyte"), in the three encodings
	big := "<html><head><title>big</title></head><body>" + strings.Repeat("<p>paragraph é 日本</p>\n", 260000) + "</body></html>" // about 6.5 MB
	for _, en := range []string{"", "gzip", "br"} {
		run(mk("", "text/html; charset=utf-8", en, "", false, big, false))
	}
	// the application is not up yet when the request arrives (it is being restarted, as after every change in watch
	// mode): the proxy retries, and the response it gets on a later attempt is treated like any other
	lateRun := func(c *c20Case) {
		l, err := net.Listen("tcp", "127.0.0.1:0")
		if err != nil {
			return
		}
		addr := l.Addr().String()
		l.Close()
		tgt, _ := url.Parse("http://" + addr)
		front2 := httptest.NewServer(proxy.New(quietLog, "127.0.0.1", 0, tgt))
		defer front2.Close()
		srv := &http.Server{Handler: upstream.Config.Handler}
		defer srv.Close()
		go func() {
			time.Sleep(180 * time.Millisecond)
			if l2, err := net.Listen("tcp", addr); err == nil {
				srv.Serve(l2)
			}
		}()
		curFront, curTag = front2.URL, "late-backend"
		run(c)
		curFront, curTag = front.URL, ""
	}
	for _, en := range []string{"", "gzip"} {
		for _, hxr := range []bool{true, false} {
			lateRun(mk("", "text/html", en, "", hxr, "<div id=\"fragment\"><p>partial</p></div>", false))
		}
	}
	// pages that the parse / render round trip makes SHORTER by a chosen number of bytes (each &nbsp; loses 4): also by
	// exactly the length of the inserted script element, with and without a nonce of various lengths
	for k := 0; k <= 26; k++ {
		page := "<html><head><title>n</title></head><body><p>" + strings.Repeat("&nbsp;", k) + "x</p></body></html>"
		run(mk("", "text/html", []string{"", "gzip", "br"}[k%3], "", false, page, false))
		nonce := strings.Repeat("n", 3+k%14)
		run(mk("", "text/html; charset=utf-8", []string{"gzip", "", "br"}[k%3], "script-src 'nonce-"+nonce+"'", false, page, false))
	}
	for nl := 1; nl <= 24; nl++ { // 48 + 9 + len(nonce) = 4k has a solution for every fourth length: sweep lengths with the matching k
		if (57+nl)%4 == 0 {
			page := "<html><head><title>n</title></head><body><p>" + strings.Repeat("&nbsp;", (57+nl)/4) + "x</p></body></html>"
			run(mk("", "text/html", "", "script-src 'nonce-"+strings.Repeat("z", nl)+"'", false, page, false))
		}
	}
	base := docs[1]
	for _, ct := range cts {
		for _, en := range []string{"", "gzip", "br", "deflate"} {
			run(mk("", ct, en, "script-src 'nonce-n1'", false, base, false))
		}
	}
	for _, csp := range csps {
		for _, en := range []string{"", "gzip"} {
			run(mk("", "text/html; charset=utf-8", en, csp, false, base, false))
		}
	}
	for _, sk := range skips {
		for _, hxr := range []bool{false, true} {
			for _, en := range []string{"", "gzip", "deflate"} {
				run(mk(sk, "text/html", en, csps[3], hxr, base, false))
			}
		}
	}
	for _, en := range []string{"gzip", "br"} {
		run(mk("", "text/html", en, "", false, docs[2], true)) // truncated compressed stream
	}
	// overlapping responses: A's headers are read, then B is fetched completely, then A's body is read. Each must be
	// what it would be alone (the proxy keeps no state between responses).
	rounds := 3
	if tier == "thorough" {
		rounds = 40
	}
	// one P: the proxy's goroutines share one sync.Pool cache, so any pooled object is reused by the very next response
	prevProcs := runtime.GOMAXPROCS(1)
	defer runtime.GOMAXPROCS(prevProcs)
	for i := 0; i < rounds; i++ {
		for _, en := range []string{"", "gzip"} {
			docA := "<html><head><title>one</title></head><body>" + strings.Repeat(fmt.Sprintf("<p>A%d</p>", i), 30000) + "</body></html>"
			docB := "<html><head><title>two</title></head><body>" + strings.Repeat(fmt.Sprintf("<i>B%d</i>", i), 30000) + "</body></html>"
			ca, cb := mk("", "text/html", en, "", false, docA, false), mk("", "text/html", en, "", false, docB, false)
			n++
			pa := fmt.Sprintf("/c/%d", n)
			n++
			pb := fmt.Sprintf("/c/%d", n)
			mu.Lock()
			cases[pa], cases[pb] = ca, cb
			mu.Unlock()
			get := func(path string) (*http.Response, error) {
				req, _ := http.NewRequest("GET", frontSlow.URL+path, nil)
				req.Header.Set("Accept-Encoding", "gzip, br, deflate")
				return clientSlow.Do(req)
			}
			ra, errA := get(pa)
			rb, errB := get(pb)
			var bodyA, bodyB []byte
			if errB == nil {
				bodyB, _ = io.ReadAll(rb.Body)
				rb.Body.Close()
			}
			if errA == nil {
				bodyA, _ = io.ReadAll(ra.Body)
				ra.Body.Close()
			}
			for _, x := range []struct {
				c    *c20Case
				resp *http.Response
				body []byte
				err  error
				tag  string
			}{{ca, ra, bodyA, errA, "overlap-first"}, {cb, rb, bodyB, errB, "overlap-second"}} {
				key := fmt.Sprintf("%s %d %s", x.tag, i, en)
				if x.err != nil {
					continue
				}
				dec, _ := decodeAs(x.resp.Header.Get("Content-Encoding"), x.body)
				ins, _ := insertOracle(x.c.decoded)
				// multi-megabyte bodies travel as length + SHA-256 (computed here) instead of hex
				sum := func(s string) string { h := sha256.Sum256([]byte(s)); return hex.EncodeToString(h[:]) }
				e.emit(key, "overlap", x.tag, hx(x.c.enc), fmt.Sprint(len(ins)), sum(ins), fmt.Sprint(len(dec)), sum(dec),
					strconv.Itoa(x.resp.StatusCode), hx(x.resp.Header.Get("Content-Encoding")), hx(x.resp.Header.Get("Content-Length")), fmt.Sprint(len(x.body)))
			}
			mu.Lock()
			delete(cases, pa)
			delete(cases, pb)
			mu.Unlock()
		}
	}
	r := &rng{s: seed}
	nr := 400
	if tier == "thorough" {
		nr = 6000
	}
	frags := []string{"<html>", "<head>", "</head>", "<body>", "</body>", "</html>", "<p>", "x", "é", "<script>", "</script>", "<!-- c -->", "<div a='b'>", "</div>", "&amp;", "<body class=x>", "\n"}
	for i := 0; i < nr; i++ {
		var sb strings.Builder
		for k := r.intn(12); k >= 0; k-- {
			sb.WriteString(r.pick(frags))
		}
		doc := sb.String()
		if r.chance(1, 3) {
			doc = r.pick(docs[:18])
		}
		run(mk(r.pick(skips[:3]), r.pick(cts), r.pick(encs), r.pick(csps), r.chance(1, 6), doc, r.chance(1, 40)))
	}
}
