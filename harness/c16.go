package main

import (
	templruntime "github.com/a-h/templ/runtime"
	"bytes"
	"context"
	"fmt"
	"go/format"
	"os"
	"os/exec"
	"path/filepath"
	"sort"
	"strconv"
	"strings"
	"unicode"
	"unicode/utf8"

	"github.com/a-h/templ"
	"github.com/a-h/templ/cmd/templ/generatecmd"
	"github.com/a-h/templ/generator"
	parser "github.com/a-h/templ/parser/v2"
	"verif/harness/tmpl"
)

func init() {
	register("C16", runC16)
	register("devrender", runDevRender)
	register("devserve", runDevServe)
}

// c16Fixtures: components rendered both normally and in development mode (child process).
func c16Fixtures() []struct {
	name string
	c    templ.Component
} {
	return []struct {
		name string
		c    templ.Component
	}{
		{"text", tmpl.TextSink("a & b")}, {"inline", tmpl.TextSinkInline("x")}, {"attr", tmpl.AttrSink("v\"q")}, {"cond", tmpl.CondAttrSink(true, "z")},
		{"spread", tmpl.SpreadSink(templ.Attributes{"data-a": "1", "hidden": true})}, {"class", tmpl.ClassSinkMulti("a", "b", true)},
		{"style", tmpl.StyleSink(map[string]string{"color": "red"})}, {"href", tmpl.HrefSink(templ.URL("/p?q=1"))}, {"textarea", tmpl.TextareaSink("t")},
		{"script-bare", tmpl.ScriptBare("v")}, {"script-dq", tmpl.ScriptDouble("v")}, {"onclick", tmpl.OnClick("a", 1)}, {"big", tmpl.Big(30)},
		{"page", tmpl.Page("T", 5)}, {"expr", tmpl.FailingExpr("ok", false)}, {"nested", tmpl.FailingNested(false)}, {"hoist", tmpl.Hoist(true, false)},
		{"calltree", tmpl.CallWithBlock(tmpl.Use("1"), "m", tmpl.Twice("2"))}, {"css", tmpl.CSSComponentSink(tmpl.DynCSS("color", "red"))},
		{"quirks", tmpl.LiteralQuirks("s")}, {"long-literal", tmpl.LongLiteral()},
	}
}

// runDevRender is the child: renders the fixtures and prints name<TAB>hex(output or ERR:…).
func runDevRender(e *emitter, tier string, seed uint64) {
	for _, f := range c16Fixtures() {
		var sb strings.Builder
		err := f.c.Render(context.Background(), &sb)
		out := sb.String()
		if err != nil {
			out = "ERR:" + err.Error()
		}
		fmt.Fprintf(e.w, "%s\t%s\n", f.name, hx(out))
	}
	// devlit: literal lines handed over by the parent are installed as this process's own development text file and read
	// back, one by one, through the real runtime.WriteString.
	in, err := os.ReadFile(filepath.Join(os.Getenv("TEMPL_DEV_MODE_ROOT"), "devlit.input"))
	if err != nil {
		return
	}
	lines := strings.Split(string(in), "\n")
	txt := templruntime.GetDevModeTextFileName(devLitSelfPath())
	if err := os.WriteFile(txt, in, 0o644); err != nil {
		return
	}
	for i := range lines {
		var sb strings.Builder
		out := ""
		if err := devLitWrite(&sb, i+1); err != nil {
			out = "ERR"
		} else {
			out = hx(sb.String())
		}
		fmt.Fprintf(e.w, "devlit:%d\t%s\n", i, out)
	}
}

func isPrintList(s string) string {
	seen := map[rune]bool{}
	var parts []string
	for _, r := range s {
		if !seen[r] && unicode.IsPrint(r) {
			seen[r] = true
			parts = append(parts, strconv.Itoa(int(r)))
		}
	}
	if len(parts) == 0 {
		return "-"
	}
	return strings.Join(parts, ",")
}

// slot forms for edit pairs: each uses the expressions s, t, b in some position.
var c16Forms = []string{
	`<p>{ s }</p>`, `<p>{{ strErr(s) }}</p>`, `<p>{ strErr(s) }</p>`, `<p title={ s }>x</p>`, `<p style={ s }>x</p>`, `<p class={ s }>x</p>`, `<p data-v={ s }>x</p>`,
	`<p onclick={ s }>x</p>`, `<a href={ s }>x</a>`, `<script>const a = {{ s }};</script>`, `<script>const a = "{{ s }}";</script>`, `<!-- { s } -->`, `<p>text s</p>`,
	`<input value={ s }/>`, `<input disabled?={ b }/>`, `<input if b { disabled }/>`, "if b {\n\t\t<i>x</i>\n\t}", `<p { attrs... }>x</p>`, `@leaf(s)`, "@wrap(s) {\n\t\t<i>y</i>\n\t}",
	`<p>50% off</p>`, `<p style="width: 100%">x</p>`, `<a href="/a%20b?c=%d">l</a>{ s }`, `<p>%s %v %!(x) %"</p>`,
	`<p>{ t }</p>`, `<p>hello</p>`, `<p>bye now</p>`, `<p>hello</p><p>again</p>`, `<b>{ s }</b><i>{ t }</i>`, `<i>{ t }</i><b>{ s }</b>`, `<style>p { color: red; }</style>`,
	"switch s {\n\t\tcase \"a\":\n\t\t\t<i>x</i>\n\t}", "for _, item := range items {\n\t\t<li>{ item }</li>\n\t}", `<p class={ "a", templ.KV(s, b) }>x</p>`, `<form action={ u }></form>`,
}

func c16Gen(src string) (generator.GeneratorOutput, string, error) {
	tf, err := parser.ParseString(src)
	if err != nil {
		return generator.GeneratorOutput{}, "", err
	}
	var b bytes.Buffer
	op, err := generator.Generate(tf, &b, generator.WithFileName("x.templ"))
	if err != nil {
		return op, "", err
	}
	out, err := format.Source(b.Bytes())
	if err != nil {
		return op, "", err
	}
	return op, lineColRe.ReplaceAllString(string(out), "Line: 0, Col: 0"), nil
}

func runC16(e *emitter, tier string, seed uint64) {
	r := &rng{s: seed}
	// 1. strconv.Quote / Unquote against the model, with unicode.IsPrint supplied per string
	doQuote := func(s string) {
		if !e.mine("quote " + s) {
			return
		}
		q := strconv.Quote(s)
		body := q[1 : len(q)-1]
		if len(c16DevLits) < 6000 {
			c16DevLits = append(c16DevLits, body)
		}
		un, err := strconv.Unquote(`"` + body + `"`)
		unS := hx(un)
		if err != nil {
			unS = "ERR"
		}
		e.emit("quote "+s, "quote", hx(s), isPrintList(s), hx(body), unS)
	}
	alphabet := []string{"\"", "\\", "\n", "\r", "\t", "a", " ", "\x00", "\x7f", "\x1b", "é", "日", "😀", "\u00a0", "\u2028", "\ufeff", "\xff", "\xc3", "\xe2\x82", "`", "'", "\a", "\v", "\u200b", "\ufffd"}
	n := 3
	if tier == "thorough" {
		n = 4
	}
	enumerate(alphabet, n, doQuote)
	for i := 0; i < 300; i++ {
		var sb strings.Builder
		for k := r.intn(30); k >= 0; k-- {
			if r.chance(1, 6) {
				var buf [4]byte
				m := utf8.EncodeRune(buf[:], rune(r.intn(0x11000)))
				sb.Write(buf[:m])
			} else {
				sb.WriteString(r.pick(alphabet))
			}
		}
		doQuote(sb.String())
	}
	// 2. literals of real generated templates: LF-free, unquotable, and the text file round trip
	doLits := func(src, origin string) {
		if !e.mine("lits " + src) {
			return
		}
		op, _, err := c16Gen(src)
		if err != nil || len(op.Literals) == 0 {
			return
		}
		joined := strings.Join(op.Literals, "\n")
		if len(c16DevLits) < 12000 && !strings.Contains(joined, "\r") {
			c16DevLits = append(c16DevLits, op.Literals...)
		}
		lines := strings.Split(joined, "\n")
		var un []string
		for _, l := range lines {
			u, err := strconv.Unquote(`"` + l + `"`)
			if err != nil {
				un = append(un, "ERR")
			} else {
				un = append(un, hx(u))
			}
		}
		e.emit("lits "+src, "lits", origin, joinHex(op.Literals), hx(joined), strings.Join(un, ";"))
	}
	for _, s := range repoTemplates() {
		doLits(s, "repo")
	}
	quirk := "package x\n\ntempl T() {\n\t<p title=\"a&quot;b\\c\">tab\there \"q\" \\n é \u00a0 \u2028</p>\n\t<!-- c\n\t\"x\" -->\n\t<script>var a = \"x\\ny\";\n\t// c\n\t</script>\n\t<style>\n\tp { content: \"\\201C\"; }\n\t</style>\n}\n"
	doLits(quirk, "seed")
	doLits(strings.ReplaceAll(quirk, "\n", "\r\n"), "seed")
	ng := 200
	if tier == "thorough" {
		ng = 4000
	}
	for i := 0; i < ng; i++ {
		src := newTgen(r, 2+r.intn(3)).file()
		if r.chance(1, 8) {
			src = strings.ReplaceAll(src, "\n", "\r\n")
		}
		doLits(src, "generated")
	}
	// 3. development-mode rendering in a child process against normal rendering here
	c16DevMode(e)
	// 4. edit pairs: whenever HasChanged says "no recompilation needed", the generated code may differ only in literals
	type variant struct {
		src  string
		op   generator.GeneratorOutput
		code string
	}
	groups := map[string][]variant{}
	nslots := 2
	var build func(prefix []string, k int)
	var all []string
	build = func(prefix []string, k int) {
		if k == 0 {
			all = append(all, strings.Join(prefix, "\n\t"))
			return
		}
		for _, f := range c16Forms {
			build(append(append([]string{}, prefix...), f), k-1)
		}
	}
	build(nil, 1)
	build(nil, nslots)
	if tier == "thorough" {
		// three slots: every rotation and swap of a random triple (moves static text across blocks and calls)
		for i := 0; i < 600; i++ {
			f, g, h := r.pick(c16Forms), r.pick(c16Forms), r.pick(c16Forms)
			for _, o := range [][]string{{f, g, h}, {g, f, h}, {f, h, g}, {h, g, f}, {g, h, f}, {h, f, g}} {
				all = append(all, strings.Join(o, "\n\t"))
			}
		}
	}
	for _, body := range all {
		src := tgenPrelude + "templ T(" + tgenSig + ") {\n\t" + body + "\n}\n"
		op, code, err := c16Gen(src)
		if err != nil {
			continue
		}
		key := fmt.Sprintf("%d|%s", len(op.Literals), strings.Join(op.SourceMap.Expressions, "\x00"))
		groups[key] = append(groups[key], variant{src, op, code})
	}
	keys := make([]string, 0, len(groups))
	for k := range groups {
		keys = append(keys, k)
	}
	sort.Strings(keys)
	pairs := 0
	for _, k := range keys {
		g := groups[k]
		for i := 0; i < len(g) && i < 16; i++ {
			for j := 0; j < len(g) && j < 16; j++ {
				if i == j {
					continue
				}
				changed := generator.HasChanged(g[i].op, g[j].op)
				pk := "pair " + g[i].src + "\x00" + g[j].src
				if !e.mine(pk) {
					continue
				}
				pairs++
				e.emit(pk, "pair", fmt.Sprint(changed), hx(g[i].src), hx(g[j].src), hx(g[i].code), hx(g[j].code))
			}
		}
	}
	// and pairs across groups (HasChanged must say true or the code must be literal-equivalent all the same)
	for i := 0; i < 200; i++ {
		a, b := groups[keys[r.intn(len(keys))]], groups[keys[r.intn(len(keys))]]
		x, y := a[r.intn(len(a))], b[r.intn(len(b))]
		changed := generator.HasChanged(x.op, y.op)
		e.emit("pair "+x.src+"\x00"+y.src, "pair", fmt.Sprint(changed), hx(x.src), hx(y.src), hx(x.code), hx(y.code))
	}
	e.counters["edit-pairs-same-signature"] = pairs
	// 5. edit sessions through the real FSEventHandler; 6. a long-running development-mode process
	c16Sessions(e, r, tier, all)
	c16TextFileNames(e)
	c16Live(e, tier)
}

// c16DevMode writes the development text files with the REAL FSEventHandler (devMode on), renders the fixtures here
// (normal mode) and in a child process started with TEMPL_DEV_MODE=true, and emits both outputs.
// c16WriteDevFiles writes the development text files of the fixture templates with the REAL FSEventHandler (devMode on)
// into $TEMPL_DEV_MODE_ROOT.
func c16WriteDevFiles(root string) error {
	tdir := filepath.Join(root, "harness", "tmpl")
	h := generatecmd.NewFSEventHandler(quietLog, tdir, true, nil, false, true, func(string, []byte) error { return nil }, false)
	files, _ := filepath.Glob(filepath.Join(tdir, "*.templ"))
	for _, f := range files {
		if _, err := h.HandleEvent(context.Background(), fsEvent(f)); err != nil {
			return fmt.Errorf("%s: %w", filepath.Base(f), err)
		}
	}
	return nil
}

// c16DevLits are the literal lines read back through development-mode runtime.WriteString (filled by runC16 from the
// real generator's literals and from strconv.Quote of the enumerated strings).
var c16DevLits []string

func c16DevMode(e *emitter) {
	root := os.Getenv("VERIF_ROOT")
	if root == "" {
		root = "/verif"
	}
	devRoot := filepath.Join(workDir, "devtxt")
	if workDir == "" {
		devRoot = filepath.Join(root, ".work", "devtxt")
	}
	os.MkdirAll(devRoot, 0o755)
	os.Setenv("TEMPL_DEV_MODE_ROOT", devRoot)
	if err := c16WriteDevFiles(root); err != nil {
		e.emit("dev gen", "dev", "generate", hx("ok"), hx("ERR:"+err.Error()))
		return
	}
	os.WriteFile(filepath.Join(devRoot, "devlit.input"), []byte(strings.Join(c16DevLits, "\n")), 0o644)
	self, _ := os.Executable()
	cmd := exec.Command(self, "devrender")
	cmd.Env = append(os.Environ(), "TEMPL_DEV_MODE=true", "TEMPL_DEV_MODE_ROOT="+devRoot)
	out, err := cmd.Output()
	devOut := map[string]string{}
	for _, l := range strings.Split(string(out), "\n") {
		if p := strings.SplitN(l, "\t", 2); len(p) == 2 {
			devOut[p[0]] = p[1]
		}
	}
	for _, f := range c16Fixtures() {
		var sb strings.Builder
		rerr := f.c.Render(context.Background(), &sb)
		normal := sb.String()
		if rerr != nil {
			normal = "ERR:" + rerr.Error()
		}
		d, ok := devOut[f.name]
		if !ok {
			d = hx(fmt.Sprintf("ERR:child produced nothing (%v)", err))
		}
		e.emit("dev "+f.name, "dev", f.name, hx(normal), d)
	}
	for i, l := range c16DevLits {
		d, ok := devOut[fmt.Sprintf("devlit:%d", i)]
		if !ok {
			d = "MISSING"
		}
		e.emit("devlit "+l, "devlit", hx(l), d)
	}
}
