package main

import (
	"context"
	"fmt"
	"io"
	"net/http"
	"net/http/httptest"
	"regexp"
	"strings"

	"github.com/a-h/templ"
	"verif/harness/tmpl"
)

func init() { register("C12", runC12) }

func c12Script(n int, withCall bool) templ.ComponentScript {
	s := templ.ComponentScript{Name: fmt.Sprintf("s%d", n), Function: fmt.Sprintf("function s%d(){}", n)}
	if withCall {
		s.Call = fmt.Sprintf("s%d()", n)
		s.CallInline = fmt.Sprintf("s%d()", n)
	}
	return s
}

func c12Class(id int) templ.ComponentCSSClass {
	return templ.ComponentCSSClass{ID: fmt.Sprintf("c%d", id), Class: templ.SafeCSS(fmt.Sprintf(".c%d{color:red;}", id))}
}

// c12Item builds a class item in one of the container forms and its encoding for the driver.
func c12Item(r *rng, depth int) (any, string) {
	id := 1 + r.intn(4)
	switch k := r.intn(9); {
	case k == 0 || depth <= 0 && k > 5:
		return c12Class(id), fmt.Sprintf("c%d", id)
	case k == 1:
		on := r.chance(2, 3)
		return templ.KV(c12Class(id), on), fmt.Sprintf("k%d%s", id, tf(on))
	case k == 2:
		on := r.chance(2, 3)
		return templ.KV(templ.CSSClass(c12Class(id)), on), fmt.Sprintf("i%d%s", id, tf(on))
	case k == 3:
		id2 := 1 + r.intn(4)
		return []templ.CSSClass{c12Class(id), c12Class(id2)}, fmt.Sprintf("s%d.%d", id, id2)
	case k == 4:
		c := c12Class(id)
		return func() templ.CSSClass { return c }, fmt.Sprintf("f%d", id)
	case k == 5 && r.chance(1, 2):
		on := r.chance(2, 3)
		id2 := 1 + r.intn(4)
		return []templ.KeyValue[templ.CSSClass, bool]{templ.KV(templ.CSSClass(c12Class(id)), on), templ.KV(templ.CSSClass(c12Class(id2)), true)}, fmt.Sprintf("a%d%s.%d", id, tf(on), id2)
	case k == 5:
		n := 1 + r.intn(3)
		return templ.ConstantCSSClass(fmt.Sprintf("k%d", n)), fmt.Sprintf("n%d", n)
	default:
		n := 1 + r.intn(3)
		items := make([]any, n)
		encs := make([]string, n)
		for i := range items {
			items[i], encs[i] = c12Item(r, depth-1)
		}
		return templ.CSSClasses(items), "L(" + strings.Join(encs, "+") + ")"
	}
}

func tf(b bool) string {
	if b {
		return "t"
	}
	return "f"
}

var (
	reScript = regexp.MustCompile(`(?s)<script[^>]*>(.*?)</script>|<style type="text/css">(.*?)</style>|on\w+="([^"]*)"|class="([^"]*)"|<once (\d+)>`)
	reFn     = regexp.MustCompile(`function s(\d+)\(\)\{\}`)
	reCall   = regexp.MustCompile(`s(\d+)\(\)`)
	reRule   = regexp.MustCompile(`\.c(\d+)\{`)
)

// c12Events parses rendered output into the event list of the model.
func c12Events(out string) string {
	var ev []string
	for _, m := range reScript.FindAllStringSubmatch(out, -1) {
		switch {
		case strings.HasPrefix(m[0], "<script"):
			if fns := reFn.FindAllStringSubmatch(m[1], -1); len(fns) > 0 {
				var ns []string
				for _, f := range fns {
					ns = append(ns, f[1])
				}
				ev = append(ev, "D:"+strings.Join(ns, "."))
			} else {
				for _, c := range reCall.FindAllStringSubmatch(m[1], -1) {
					ev = append(ev, "C:"+c[1])
				}
			}
		case strings.HasPrefix(m[0], "<style"):
			var ids []string
			for _, c := range reRule.FindAllStringSubmatch(m[2], -1) {
				ids = append(ids, c[1])
			}
			ev = append(ev, "S:"+strings.Join(ids, "."))
		case strings.HasPrefix(m[0], "on"):
			for _, c := range reCall.FindAllStringSubmatch(m[3], -1) {
				ev = append(ev, "C:"+c[1])
			}
		case strings.HasPrefix(m[0], "class="):
			for _, n := range strings.Fields(m[4]) {
				if strings.HasPrefix(n, "c") {
					ev = append(ev, "N:"+n[1:])
				} else if strings.HasPrefix(n, "k") {
					ev = append(ev, "N:100"+n[1:])
				}
			}
		default:
			ev = append(ev, "O:"+m[5])
		}
	}
	if len(ev) == 0 {
		return "-"
	}
	return strings.Join(ev, ",")
}

type c12Use struct {
	enc string
	do  func(ctx context.Context, w io.Writer, handles map[int]*templ.OnceHandle) error
}

func c12GenUse(r *rng) c12Use {
	switch r.intn(4) {
	case 0:
		n, call := 1+r.intn(4), r.chance(3, 4)
		return c12Use{fmt.Sprintf("sc:%d:%s", n, tf(call)), func(ctx context.Context, w io.Writer, _ map[int]*templ.OnceHandle) error {
			return c12Script(n, call).Render(ctx, w)
		}}
	case 1:
		k := 1 + r.intn(3)
		ns := make([]int, k)
		parts := make([]string, k)
		for i := range ns {
			ns[i] = 1 + r.intn(4)
			parts[i] = fmt.Sprint(ns[i])
		}
		return c12Use{"sa:" + strings.Join(parts, "."), func(ctx context.Context, w io.Writer, _ map[int]*templ.OnceHandle) error {
			// what the generator emits for an element with on* attributes: hoisted RenderScriptItems, then the tag
			scripts := make([]templ.ComponentScript, len(ns))
			for i, n := range ns {
				scripts[i] = c12Script(n, true)
			}
			if err := templ.RenderScriptItems(ctx, w, scripts...); err != nil {
				return err
			}
			io.WriteString(w, "<button")
			for i, s := range scripts {
				fmt.Fprintf(w, ` on%c="%s"`, 'a'+i, s.Call)
			}
			_, err := io.WriteString(w, ">b</button>")
			return err
		}}
	case 2:
		k := 1 + r.intn(3)
		items := make([]any, k)
		encs := make([]string, k)
		for i := range items {
			items[i], encs[i] = c12Item(r, 2)
		}
		return c12Use{"ca:" + strings.Join(encs, "+"), func(ctx context.Context, w io.Writer, _ map[int]*templ.OnceHandle) error {
			// what the generator emits for class={ ... }: hoisted RenderCSSItems, then class="names"
			if err := templ.RenderCSSItems(ctx, w, items...); err != nil {
				return err
			}
			_, err := fmt.Fprintf(w, `<p class="%s">p</p>`, templ.EscapeString(templ.CSSClasses(items).String()))
			return err
		}}
	default:
		h := 1 + r.intn(3)
		nested := r.chance(1, 3)
		return c12Use{fmt.Sprintf("on:%d", h), func(ctx context.Context, w io.Writer, handles map[int]*templ.OnceHandle) error {
			if handles[h] == nil {
				// distinct handles however they were made: by the constructor, or as zero values (var h templ.OnceHandle)
				switch h {
				case 1:
					handles[h] = templ.NewOnceHandle()
				case 2:
					handles[h] = new(templ.OnceHandle)
				default:
					handles[h] = &templ.OnceHandle{}
				}
			}
			content := templ.Component(templ.Raw(fmt.Sprintf("<once %d>", h)))
			if nested {
				// the content uses the same handle again (a component that guards its own dependency, rendered inside the
				// guarded block): still once
				hh := handles[h]
				content = templ.ComponentFunc(func(ctx context.Context, w io.Writer) error {
					if _, err := fmt.Fprintf(w, "<once %d>", h); err != nil {
						return err
					}
					return hh.Once().Render(templ.WithChildren(ctx, templ.Raw(fmt.Sprintf("<once %d>", h))), w)
				})
			}
			return handles[h].Once().Render(templ.WithChildren(ctx, content), w)
		}}
	}
}

var reScriptName = regexp.MustCompile("Name: `([^`]*)`")
var reScriptFunction = regexp.MustCompile("Function: `([^`]*)`")

// c12ScriptNames: the context identifies a script by the function name the generator gives it, so two script templates
// that are not the same function must not get the same name (they may live in different packages of one program).
func c12ScriptNames(e *emitter) {
	type st struct{ params, body string }
	variants := []st{
		{"first string, second string", "console.log(first, second);"},
		{"second string, first string", "console.log(first, second);"},
		{"a string", "console.log(a);"},
		{"a string", "console.log(a) ;"},
		{"a string, b string", "console.log(a);"},
		{"b string", "console.log(a);"},
		{"", "alert(1);"},
	}
	gen := func(v st) (string, string, bool) {
		src := "package x\n\nscript show(" + v.params + ") {\n\t" + v.body + "\n}\n"
		code, err := generateGo(src)
		if err != nil {
			return "", "", false
		}
		n, f := reScriptName.FindStringSubmatch(code), reScriptFunction.FindStringSubmatch(code)
		if n == nil || f == nil {
			return "", "", false
		}
		return n[1], f[1], true
	}
	for i, a := range variants {
		for j, b := range variants {
			if j <= i {
				continue
			}
			na, fa, oka := gen(a)
			nb, fb, okb := gen(b)
			if !oka || !okb {
				continue
			}
			e.emit(fmt.Sprintf("scriptname %d %d", i, j), "scriptname", hx(a.params+" | "+a.body), hx(b.params+" | "+b.body), hx(na), hx(nb), b01(fa == fb),
				b01(a.body == b.body))
		}
	}
}

// c12ScriptNameCollision looks for two script templates with the same name and parameters but different bodies that get
// the same function name (the name carries only a few digits of a digest of the body).
func c12ScriptNameCollision(e *emitter) {
	seen := map[string]int{}
	gen := func(i int) (string, string, string) {
		body := fmt.Sprintf("console.log(\"variant %d\");", i)
		code, err := generateGo("package x\n\nscript setup() {\n\t" + body + "\n}\n")
		if err != nil {
			return "", "", body
		}
		n, f := reScriptName.FindStringSubmatch(code), reScriptFunction.FindStringSubmatch(code)
		if n == nil || f == nil {
			return "", "", body
		}
		return n[1], f[1], body
	}
	for i := 0; i < 4000; i++ {
		name, fn, body := gen(i)
		if name == "" {
			continue
		}
		if j, dup := seen[name]; dup {
			_, fj, bj := gen(j)
			e.emit("scriptname collision", "scriptname", hx(" | "+bj), hx(" | "+body), hx(name), hx(name), b01(fj == fn), b01(false))
			return
		}
		seen[name] = i
	}
	e.count("no-script-name-collision-in-4000-bodies")
}

func runC12(e *emitter, tier string, seed uint64) {
	c12ScriptNames(e)
	if e.mine("scriptname collision") {
		c12ScriptNameCollision(e)
	}
	r := &rng{s: seed}
	n := 1500
	if tier == "thorough" {
		n = 40000
	}
	// 1. use histories in one or several independent contexts
	for i := 0; i < n; i++ {
		nctx := 1 + r.intn(2)
		ctxs := make([]context.Context, nctx)
		for k := range ctxs {
			ctxs[k] = templ.InitializeContext(context.Background())
		}
		handles := map[int]*templ.OnceHandle{}
		outs := make([]strings.Builder, nctx)
		encs := make([][]string, nctx)
		for k := 1 + r.intn(8); k > 0; k-- {
			u := c12GenUse(r)
			which := r.intn(nctx)
			if r.chance(1, 6) {
				// a nonce set part-way through (a middleware below the one that initialised the context): the context
				// stays the context
				ctxs[which] = templ.WithNonce(ctxs[which], "n0nce")
			}
			do := u.do
			if r.chance(1, 3) {
				// the use happens inside the child block of a component call (also the very first use of a context): the
				// registry is the context's, not the block's
				inner := u.do
				do = func(ctx context.Context, w io.Writer, h map[int]*templ.OnceHandle) error {
					block := templ.ComponentFunc(func(ctx context.Context, w io.Writer) error { return inner(ctx, w, h) })
					return tmpl.Use("w").Render(templ.WithChildren(ctx, block), w)
				}
			}
			if err := do(ctxs[which], &outs[which], handles); err != nil {
				encs[which] = append(encs[which], "ERR")
				continue
			}
			encs[which] = append(encs[which], u.enc)
		}
		for k := range ctxs {
			if len(encs[k]) == 0 {
				continue
			}
			enc := strings.Join(encs[k], ";")
			e.emit(fmt.Sprintf("hist %d %d %s", i, k, enc), "hist", "-", enc, c12Events(outs[k].String()))
		}
	}
	// 1b. a script and a CSS class that happen to have the same identifier are still two things
	for i, order := range []string{"class-first", "script-first", "class-twice-then-script"} {
		ctx := templ.InitializeContext(context.Background())
		cls := templ.ComponentCSSClass{ID: "tooltip", Class: templ.SafeCSS(".tooltip{color:red;}")}
		scr := templ.ComponentScript{Name: "tooltip", Function: "function tooltip(){}", Call: "tooltip()", CallInline: "tooltip()"}
		var sb strings.Builder
		useClass := func() { _ = templ.RenderCSSItems(ctx, &sb, cls); sb.WriteString("<i class=\"tooltip\"></i>") }
		useScript := func() { _ = templ.RenderScriptItems(ctx, &sb, scr); sb.WriteString("<b onclick=\"tooltip()\"></b>") }
		switch i {
		case 0:
			useClass()
			useScript()
		case 1:
			useScript()
			useClass()
		default:
			useClass()
			useClass()
			useScript()
			useScript()
		}
		e.emit("alias "+order, "alias", order, hx(sb.String()))
	}
	// 2. the CSS middleware: registered classes are never inlined, requests are independent, the endpoint serves the rules
	for i := 0; i < n/10; i++ {
		var reg []templ.CSSClass
		var regEnc []string
		for id := 1; id <= 4; id++ {
			if r.chance(1, 2) {
				reg = append(reg, c12Class(id))
				regEnc = append(regEnc, fmt.Sprint(id))
			}
		}
		var uses []c12Use
		next := http.HandlerFunc(func(w http.ResponseWriter, req *http.Request) {
			handles := map[int]*templ.OnceHandle{}
			for _, u := range uses {
				u.do(req.Context(), w, handles)
			}
		})
		mw := templ.NewCSSMiddleware(next, reg...)
		regS := strings.Join(regEnc, ".")
		if regS == "" {
			regS = "-"
		}
		for reqN := 0; reqN < 3; reqN++ {
			uses = nil
			var encs []string
			for k := 1 + r.intn(6); k > 0; k-- {
				u := c12GenUse(r)
				uses = append(uses, u)
				encs = append(encs, u.enc)
			}
			rec := httptest.NewRecorder()
			mw.ServeHTTP(rec, httptest.NewRequest("GET", "/page", nil))
			enc := strings.Join(encs, ";")
			e.emit(fmt.Sprintf("mw %d %d %s %s", i, reqN, regS, enc), "hist", regS, enc, c12Events(rec.Body.String()))
		}
		rec := httptest.NewRecorder()
		mw.ServeHTTP(rec, httptest.NewRequest("GET", "/styles/templ.css", nil))
		var served []string
		for _, c := range reRule.FindAllStringSubmatch(rec.Body.String(), -1) {
			served = append(served, c[1])
		}
		sv := strings.Join(served, ".")
		if sv == "" {
			sv = "-"
		}
		e.emit(fmt.Sprintf("css %d %s", i, regS), "stylesheet", regS, sv)
	}
	// 2b. the same expression text at two elements of one template: each element that is rendered brings its definitions
	for _, canEdit := range []bool{false, true} {
		var sb strings.Builder
		tmpl.Toolbar(canEdit).Render(context.Background(), &sb)
		e.emit(fmt.Sprintf("before toolbar %v", canEdit), "before", "toolbar-"+tf(canEdit), hx("<form"), hx("function __templ_fixA")+";"+hx("<style"), hx(sb.String()))
	}
	// 3. hoisting in generated code (both branches of conditional attributes, nested conditionals)
	for _, c := range []bool{false, true} {
		for _, d := range []bool{false, true} {
			var sb strings.Builder
			tmpl.Hoist(c, d).Render(context.Background(), &sb)
			e.emit(fmt.Sprintf("hoist %v %v", c, d), "hoist", tf(c), tf(d), hx(sb.String()))
		}
	}
}
