package main

import (
	"github.com/fsnotify/fsnotify"
)

func fsEvent(path string) fsnotify.Event { return fsnotify.Event{Name: path, Op: fsnotify.Write} }
