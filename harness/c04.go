package main

import (
	"context"
	"fmt"
	"strings"
	"sync"

	"github.com/a-h/templ"
	"verif/harness/tmpl"
)

func init() { register("C04", runC04) }

func c04Emit(e *emitter, s string) {
	if !e.mine(s) {
		return
	}
	e.emit(s, "url", hx(s), hx(string(templ.URL(s))))
}

var xssVectors = []string{
	"javascript:alert(1)", "JaVaScRiPt:alert(1)", " javascript:alert(1)", "java\tscript:alert(1)", "java\nscript:alert(1)",
	"java\rscript:alert(1)", "\x01javascript:alert(1)", "javascript\t:alert(1)", "javascript&colon;alert(1)",
	"javascript&#58;alert(1)", "&#106;avascript:alert(1)", "data:text/html,<script>alert(1)</script>", "vbscript:msgbox(1)",
	"\x00javascript:alert(1)", "jav&#x09;ascript:alert(1)", "javascript://%0aalert(1)", "//evil.example/x", "/\\evil.example",
	"http://a/b:c", "https://x", "HTTPS://x", "mailto:a@b", "tel:+1", "ftp://h", "ftps://h", "httpſ://x", "ftpſ://x", "teL:1",
	"a/b:c", "?a:b", "#a:b", "x:y", "about:invalid#TemplFailedSanitizationURL", "about:blank", "blob:x", "file:///etc/passwd",
	"ws://x", "wss://x", "view-source:x", "feed:javascript:alert(1)", "http:javascript:alert(1)", ":javascript:alert(1)", "",
	"KelvinK:", "K:", "sſ:", "tel :1", " javascript:alert(1)", " javascript:alert(1)", "\ufeffjavascript:alert(1)",
}

func runC04(e *emitter, tier string, seed uint64) {
	for _, f := range e.corpusLines() {
		if len(f) >= 3 && f[0] == "C04" && f[1] == "url" {
			c04Emit(e, unhx(f[2]))
		}
	}
	if e.onlyCorpus {
		return
	}
	for _, v := range xssVectors {
		c04Emit(e, v)
	}
	c04Typing(e, seed, tier)
	c04Docs(e)
	c04Concurrent(e, tier)
	// the other route by which a dynamic value reaches href / action: spread attributes
	for _, v := range xssVectors {
		for _, el := range []string{"a", "form"} {
			key := "spread " + el + " " + v
			if !e.mine(key) {
				continue
			}
			var sb strings.Builder
			if el == "a" {
				_ = tmpl.SpreadAnchor(templ.Attributes{"href": v}).Render(context.Background(), &sb)
			} else {
				_ = tmpl.SpreadForm(templ.Attributes{"action": v}).Render(context.Background(), &sb)
			}
			e.emit(key, "spread", el, hx(v), hx(sb.String()))
		}
	}
	full := []string{"j", "J", "a", "h", "H", "t", "T", "p", "P", "s", "S", ":", "/", "\\", "?", "#", "%", "&", ";", "\t", "\n", "\r", " ", "\x00", "ſ", "é", "\xff"}
	n := 4
	if tier == "thorough" {
		n = 5
	}
	enumerate(full, n, func(s string) { c04Emit(e, s) })
	if tier == "thorough" {
		core := []string{"h", "T", "t", "p", "s", "S", ":", "/", "\\", "\t", "\n", " ", "\x00", "ſ", "é", "\xff"}
		enumerate(core, 6, func(s string) { c04Emit(e, s) })
	}
	// every case / whitespace / control mutation of "<scheme>:" + tail
	schemes := []string{"http", "https", "mailto", "tel", "ftp", "ftps", "javascript", "data", "vbscript", "about", "file", "blob"}
	tails := []string{"", "x", "//h/p", "alert(1)", "/a:b"}
	inserts := []string{"", "\t", "\n", "\r", " ", "\x00", "\x01", "\x1f", " ", "/", "&#58;", "%3a", "\xff", "+", "-", "."}
	for _, sc := range schemes {
		for mask := 0; mask < 1<<len(sc) && mask < 1<<7; mask++ {
			b := []byte(sc)
			for i := range b {
				if i < 7 && mask&(1<<i) != 0 {
					b[i] = b[i] - 32
				}
			}
			cased := string(b)
			for _, ins := range inserts {
				for pos := 0; pos <= len(cased); pos++ {
					if mask != 0 && mask != (1<<len(sc))-1 && mask != 1 && ins != "" && pos != 0 && pos != len(cased) && pos != 2 {
						continue
					}
					for _, tl := range tails {
						c04Emit(e, cased[:pos]+ins+cased[pos:]+":"+tl)
					}
				}
			}
		}
	}
	// LONG disguises: runs of bytes a browser ignores (leading C0 / space; TAB, LF, CR anywhere) of every length up to 70
	// in front of, inside and behind the scheme name - a bound on where the colon is looked for must not matter
	for _, sc := range []string{"javascript", "JavaScript", "data", "vbscript", "http", "mailto"} {
		for _, fill := range []string{" ", "\t", "\n", "\r", "\x00", "\x01", "\x1f", "\t\n"} {
			for n := 0; n <= 70; n += 1 + n/16 {
				run := strings.Repeat(fill, n)
				c04Emit(e, run+sc+":alert(1)")
				if fill == "\t" || fill == "\n" || fill == "\r" || fill == "\t\n" {
					c04Emit(e, sc[:2]+run+sc[2:]+":alert(1)")
					c04Emit(e, sc+run+":alert(1)")
					c04Emit(e, run+sc[:1]+run+sc[1:]+run+":x")
				}
			}
		}
	}
	// mutations of the vector list and random long strings
	r := &rng{s: seed}
	nrand := 20000
	if tier == "thorough" {
		nrand = 400000
	}
	for i := 0; i < nrand; i++ {
		var s string
		if r.chance(1, 2) {
			v := r.pick(xssVectors)
			b := []byte(v)
			for k := r.intn(4); k >= 0 && len(b) > 0; k-- {
				p := r.intn(len(b))
				switch r.intn(4) {
				case 0:
					b = append(b[:p], append([]byte(r.pick(full)), b[p:]...)...)
				case 1:
					b = append(b[:p], b[p+1:]...)
				case 2:
					if b[p] >= 'a' && b[p] <= 'z' {
						b[p] -= 32
					} else if b[p] >= 'A' && b[p] <= 'Z' {
						b[p] += 32
					}
				case 3:
					b[p] = byte(r.intn(256))
				}
			}
			s = string(b)
		} else {
			var sb strings.Builder
			for k := r.intn(40); k >= 0; k-- {
				sb.WriteString(r.pick(full))
			}
			s = sb.String()
		}
		c04Emit(e, s)
	}
}

// c04Typing: "dynamic href on <a> and action on <form> can only be filled through the safe-URL type".
// For templates that place an href/action expression attribute in every syntactic position (plain,
// then-branch, else-branch, nested conditionals, after other attributes, multi-line), run the REAL
// parser and generator and hand the generated Go text to the driver, which checks that the expression is
// assigned to a templ.SafeURL variable (so a plain string does not type-check) and written through
// templ.EscapeString.
func c04Typing(e *emitter, seed uint64, tier string) {
	type shape struct{ name, tmpl string }
	shapes := []shape{
		{"plain", `<%[1]s %[2]s={ %[3]s }>x</%[1]s>`},
		{"after-attrs", `<%[1]s class="c" id={ "i" } %[2]s={ %[3]s } data-x>x</%[1]s>`},
		{"then", `<%[1]s if c { %[2]s={ %[3]s } }>x</%[1]s>`},
		{"else", `<%[1]s if c { class="a" } else { %[2]s={ %[3]s } }>x</%[1]s>`},
		{"then-else", `<%[1]s if c { %[2]s={ %[3]s } } else { %[2]s={ %[3]s } }>x</%[1]s>`},
		{"nested-then", `<%[1]s if c { if d { %[2]s={ %[3]s } } }>x</%[1]s>`},
		{"nested-else", `<%[1]s if c { id="a" } else { if d { id="b" } else { %[2]s={ %[3]s } } }>x</%[1]s>`},
		{"multiline", "<%[1]s\n\t\tclass=\"c\"\n\t\t%[2]s={ %[3]s }\n\t>x</%[1]s>"},
		{"void-sibling", `<div><br/><%[1]s %[2]s={ %[3]s }>x</%[1]s></div>`},
		{"in-if-node", "if c {\n\t\t<%[1]s %[2]s={ %[3]s }>x</%[1]s>\n\t}"},
		{"in-for", "for i := 0; i < 2; i++ {\n\t\t<%[1]s if d { %[2]s={ %[3]s } }>x</%[1]s>\n\t}"},
		{"in-call-block", "@wrap() {\n\t\t<%[1]s %[2]s={ %[3]s }>x</%[1]s>\n\t}"},
		// the same expression text used by an earlier plain string attribute of the element: each use is typed by its own attribute
		{"shared-before", `<%[1]s title={ %[3]s } %[2]s={ %[3]s }>x</%[1]s>`},
		{"shared-data", `<%[1]s data-target={ %[3]s } class="c" %[2]s={ %[3]s }>x</%[1]s>`},
	}
	pairs := [][2]string{{"a", "href"}, {"form", "action"}, {"a", "HREF"}, {"a", "Href"}, {"form", "Action"}, {"A", "href"}, {"FORM", "ACTION"}}
	exprs := []string{"u", "templ.URL(s)", "templ.SafeURL(s)", "p.Link"}
	for _, sh := range shapes {
		for _, p := range pairs {
			for _, ex := range exprs {
				body := fmt.Sprintf(sh.tmpl, p[0], p[1], ex)
				src := "package x\n\ntempl wrap() {\n\t<div>{ children... }</div>\n}\n\ntempl T(c, d bool, s string, u templ.SafeURL, p P) {\n\t" + body + "\n}\n"
				key := "typing " + sh.name + " " + p[0] + "." + p[1] + " " + ex
				if !e.mine(key) {
					continue
				}
				code, err := generateGo(src)
				if err != nil {
					code = "GENERATE-ERROR: " + err.Error()
				}
				e.emit(key, "typing", hx(sh.name+":"+p[0]+"."+p[1]), hx(ex), hx(src), hx(code))
			}
		}
	}
}

// c04Docs: end to end - the sanitised URL in <a href={ }> and <form action={ }> of a generated template, as the HTML
// tokenizer reads the attribute back: exactly what templ.URL returned, whatever characters stand next to each other.
func c04Docs(e *emitter) {
	specials := []string{"&", "\"", "'", "<", ">", "a", ";", "#"}
	var vals []string
	for _, a := range specials {
		for _, b := range specials {
			vals = append(vals, "/x?q="+a+b+"z", a+b, "/p"+a+b+a)
			for _, c := range specials[:5] {
				vals = append(vals, "/"+a+b+c)
			}
		}
	}
	vals = append(vals, "/x?&\" onmouseover=alert(1) x", "/x?q=&&colon;", "/a?b=1&amp;c=2", "/a?b=1&c=2&copy=3", "javascript&colon;alert(1)", "/x?a='\"><script>")
	for _, v := range append(vals, xssVectors...) {
		for _, el := range []string{"a", "form"} {
			key := "hrefdoc " + el + " " + v
			if !e.mine(key) {
				continue
			}
			u := templ.URL(v)
			var sb strings.Builder
			if el == "a" {
				_ = tmpl.HrefSink(u).Render(context.Background(), &sb)
			} else {
				_ = tmpl.ActionSink(u).Render(context.Background(), &sb)
			}
			e.emit(key, "hrefdoc", el, hx(v), hx(string(u)), hx(sb.String()))
		}
	}
}

// c04Concurrent: templ.URL called from many goroutines at once, half of them with allowed and half with disallowed
// schemes of the same lengths: every call gets the answer it gets when called alone.
func c04Concurrent(e *emitter, tier string) {
	if !e.mine("urlpar") {
		return
	}
	inputs := []string{"http://h/a", "data:text/html,x", "https://h/a", "blob:https://h/x", "file:///etc/passwd", "mailto:a@b", "tel:+1", "sms:+1", "irc:x", "ftp://h", "ftps://h", "about:blank", "gopher://h", "/rel", "javascript:alert(1)", "HTTP://H", "DATA:x", "Sms:1", "Tel:1"}
	alone := map[string]string{}
	for _, in := range inputs {
		alone[in] = string(templ.URL(in))
	}
	rounds := 20000
	if tier == "thorough" {
		rounds = 200000
	}
	var mu sync.Mutex
	wrong := map[string]string{}
	var wg sync.WaitGroup
	for g := 0; g < 16; g++ {
		wg.Add(1)
		go func(g int) {
			defer wg.Done()
			for i := 0; i < rounds; i++ {
				in := inputs[(i*7+g*3)%len(inputs)]
				if out := string(templ.URL(in)); out != alone[in] {
					mu.Lock()
					wrong[in] = out
					mu.Unlock()
				}
			}
		}(g)
	}
	wg.Wait()
	first, firstOut := "", ""
	for in, out := range wrong {
		if first == "" || in < first {
			first, firstOut = in, out
		}
	}
	e.emit("urlpar", "urlpar", fmt.Sprint(len(wrong)), hx(first), hx(alone[first]), hx(firstOut))
}
