package main

import (
	"bytes"
	"context"
	"fmt"
	"io"
	"strings"

	"github.com/a-h/templ"
	"verif/harness/tmpl"
)

func init() { register("C13", runC13) }

// term: a call tree over the fixture combinators; enc is what the Lean driver parses.
type c13Term struct {
	enc  string
	make func(h map[int]*templ.OnceHandle) templ.Component
	size int
}

func c13Gen(r *rng, depth int, tagN *int, fixedOnce bool) c13Term {
	next := func() int { *tagN++; return *tagN }
	leaf := func() c13Term {
		n := next()
		switch r.intn(5) {
		case 0:
			if n%2 == 0 {
				// a hand-written component with the same meaning as tmpl.Use that renders its block into a writer of its own
				// FIRST and copies the result into place: the block must write to the writer it is given
				return c13Term{fmt.Sprintf("U%d", n), func(map[int]*templ.OnceHandle) templ.Component {
					return templ.ComponentFunc(func(ctx context.Context, w io.Writer) error {
						children := templ.GetChildren(ctx)
						ctx = templ.ClearChildren(ctx)
						var own bytes.Buffer
						cerr := children.Render(ctx, &own)
						if _, err := fmt.Fprintf(w, "<use id=\"%d\">", n); err != nil {
							return err
						}
						if _, err := w.Write(own.Bytes()); err != nil {
							return err
						}
						if cerr != nil {
							return cerr
						}
						_, err := io.WriteString(w, "</use>")
						return err
					})
				}, 1}
			}
			return c13Term{fmt.Sprintf("U%d", n), func(map[int]*templ.OnceHandle) templ.Component { return tmpl.Use(fmt.Sprint(n)) }, 1}
		case 1:
			return c13Term{fmt.Sprintf("I%d", n), func(map[int]*templ.OnceHandle) templ.Component { return tmpl.Ignore(fmt.Sprint(n)) }, 1}
		case 2:
			return c13Term{fmt.Sprintf("T%d", n), func(map[int]*templ.OnceHandle) templ.Component { return tmpl.Twice(fmt.Sprint(n)) }, 1}
		case 3:
			return c13Term{fmt.Sprintf("H%d", n), func(map[int]*templ.OnceHandle) templ.Component {
				return templ.ComponentFunc(func(ctx context.Context, w io.Writer) error {
					_, err := io.WriteString(w, fmt.Sprintf("<hand %d>", n))
					return err
				})
			}, 1}
		default:
			return c13Term{"C", func(map[int]*templ.OnceHandle) templ.Component {
				return templ.ComponentFunc(func(ctx context.Context, w io.Writer) error { return templ.GetChildren(ctx).Render(ctx, w) })
			}, 1}
		}
	}
	if depth <= 0 {
		return leaf()
	}
	switch r.intn(12) {
	case 0, 1:
		return leaf()
	case 2:
		x := c13Gen(r, depth-1, tagN, fixedOnce)
		return c13Term{"N(" + x.enc + ")", func(h map[int]*templ.OnceHandle) templ.Component { return tmpl.CallNoBlock(x.make(h)) }, x.size + 1}
	case 3, 4, 5:
		x := c13Gen(r, depth-1, tagN, fixedOnce)
		in := c13Gen(r, depth-1, tagN, fixedOnce)
		m := next()
		return c13Term{fmt.Sprintf("B(%s,%d,%s)", x.enc, m, in.enc), func(h map[int]*templ.OnceHandle) templ.Component {
			return tmpl.CallWithBlock(x.make(h), fmt.Sprint(m), in.make(h))
		}, x.size + in.size + 1}
	case 6:
		x := c13Gen(r, depth-1, tagN, fixedOnce)
		return c13Term{"W(" + x.enc + ")", func(h map[int]*templ.OnceHandle) templ.Component { return tmpl.Forward(x.make(h)) }, x.size + 1}
	case 7, 8:
		a := c13Gen(r, depth-1, tagN, fixedOnce)
		b := c13Gen(r, depth-1, tagN, fixedOnce)
		return c13Term{"S(" + a.enc + "," + b.enc + ")", func(h map[int]*templ.OnceHandle) templ.Component { return tmpl.Seq(a.make(h), b.make(h)) }, a.size + b.size + 1}
	case 9:
		id := 1 + r.intn(2)
		if r.chance(1, 3) {
			f := c13Gen(r, depth-1, tagN, true)
			id = 100 + next() // a handle created with WithComponent is used at one place only
			return c13Term{fmt.Sprintf("O(%d,%s)", id, f.enc), func(h map[int]*templ.OnceHandle) templ.Component {
				if h[id] == nil {
					h[id] = templ.NewOnceHandle(templ.WithComponent(f.make(h)))
				}
				return h[id].Once()
			}, f.size + 1}
		}
		return c13Term{fmt.Sprintf("O(%d,-)", id), func(h map[int]*templ.OnceHandle) templ.Component {
			if h[id] == nil {
				h[id] = templ.NewOnceHandle()
			}
			return h[id].Once()
		}, 1}
	case 10:
		return c13Term{"F", func(map[int]*templ.OnceHandle) templ.Component { return templ.Flush() }, 1}
	default:
		a := c13Gen(r, depth-1, tagN, fixedOnce)
		b := c13Gen(r, depth-1, tagN, fixedOnce)
		return c13Term{"J(" + a.enc + "," + b.enc + ")", func(h map[int]*templ.OnceHandle) templ.Component { return templ.Join(a.make(h), b.make(h)) }, a.size + b.size + 1}
	}
}

func c13Canon(s string) string {
	// the fixture templates contain layout white space between nodes; the model writes none
	return strings.Join(strings.Fields(strings.NewReplacer("\n", " ", "\t", " ").Replace(s)), "")
}

func runC13(e *emitter, tier string, seed uint64) {
	r := &rng{s: seed}
	do := func(t c13Term) {
		if !e.mine(t.enc) {
			return
		}
		// a block that ends up rendering itself recurses without bound: stop it through the writer
		sb := &capWriter{limit: 200000}
		var err error
		if p, msg := safely(func() { err = t.make(map[int]*templ.OnceHandle{}).Render(templ.InitializeContext(context.Background()), sb) }); p {
			err = fmt.Errorf("panic: %v", msg)
		}
		out := sb.sb.String()
		if err != nil {
			out = "ERR:" + err.Error()
		}
		e.emit(t.enc, "tree", t.enc, hx(c13Canon(out)))
	}
	// a block that is a single call: the call's arguments are evaluated when - and as often as - the callee renders its
	// slot, in the caller's scope
	callees := []struct {
		name string
		mk   func() templ.Component
	}{
		{"ignore", func() templ.Component { return tmpl.Ignore("1") }}, {"use", func() templ.Component { return tmpl.Use("1") }},
		{"twice", func() templ.Component { return tmpl.Twice("1") }}, {"forward-use", func() templ.Component { return tmpl.Forward(tmpl.Use("1")) }},
		{"forward-ignore", func() templ.Component { return tmpl.Forward(tmpl.Ignore("1")) }}, {"noblock-use", func() templ.Component { return tmpl.CallNoBlock(tmpl.Use("1")) }},
		{"hand-ignore", func() templ.Component {
			return templ.ComponentFunc(func(ctx context.Context, w io.Writer) error { _, err := io.WriteString(w, "<hand>"); return err })
		}},
		{"hand-thrice", func() templ.Component {
			return templ.ComponentFunc(func(ctx context.Context, w io.Writer) error {
				c := templ.GetChildren(ctx)
				ctx = templ.ClearChildren(ctx)
				for i := 0; i < 3; i++ {
					if err := c.Render(ctx, w); err != nil {
						return err
					}
				}
				return nil
			})
		}},
		{"twice-in-twice", func() templ.Component { return tmpl.CallWithBlock(tmpl.Twice("2"), "m", tmpl.Twice("3")) }},
	}
	for _, c := range callees {
		if !e.mine("evalcount " + c.name) {
			continue
		}
		calls := 0
		f := func() templ.Component {
			calls++
			return templ.Raw(fmt.Sprintf("<ev%d>", calls))
		}
		var sb strings.Builder
		err := tmpl.SingleCallBlock(c.mk(), f).Render(templ.InitializeContext(context.Background()), &sb)
		out := sb.String()
		if err != nil {
			out = "ERR:" + err.Error()
		}
		e.emit("evalcount "+c.name, "evalcount", c.name, fmt.Sprint(calls), hx(c13Canon(out)))
	}
	// a hand-written layer that prepares the call contexts of two callees before it renders either: each callee gets the
	// block of its own call
	if e.mine("layer two-contexts") {
		layer := templ.ComponentFunc(func(ctx context.Context, w io.Writer) error {
			l := templ.WithChildren(ctx, templ.Raw("L"))
			r := templ.WithChildren(ctx, templ.Raw("R"))
			if err := tmpl.Use("1").Render(l, w); err != nil {
				return err
			}
			return tmpl.Use("2").Render(r, w)
		})
		var sb strings.Builder
		err := tmpl.CallNoBlock(layer).Render(templ.InitializeContext(context.Background()), &sb)
		out := c13Canon(sb.String())
		if err != nil {
			out = "ERR:" + err.Error()
		}
		e.emit("layer two-contexts", "layer", "two-contexts", hx(`<nb><useid="1">L</use><useid="2">R</use></nb>`), hx(out))
	}
	// a hand-written layer that sets the nonce of its context before it hands the block on: the block is still there
	if e.mine("layer nonce-before-block") {
		layer := templ.ComponentFunc(func(ctx context.Context, w io.Writer) error {
			ctx = templ.WithNonce(ctx, "n1")
			return tmpl.Use("1").Render(ctx, w)
		})
		var sb strings.Builder
		err := tmpl.CallWithBlock(layer, "M", templ.Raw("I")).Render(templ.InitializeContext(context.Background()), &sb)
		out := c13Canon(sb.String())
		if err != nil {
			out = "ERR:" + err.Error()
		}
		e.emit("layer nonce-before-block", "layer", "nonce-before-block", hx(`<wb><useid="1"><m>M</m>I</use></wb>`), hx(out))
		// ... and a callee that takes its block out after setting the nonce
		direct := templ.ComponentFunc(func(ctx context.Context, w io.Writer) error {
			ctx = templ.WithNonce(ctx, "n2")
			return templ.GetChildren(ctx).Render(ctx, w)
		})
		sb.Reset()
		err = tmpl.CallWithBlock(direct, "M", templ.Raw("I")).Render(templ.InitializeContext(context.Background()), &sb)
		out = c13Canon(sb.String())
		if err != nil {
			out = "ERR:" + err.Error()
		}
		e.emit("layer nonce-then-getchildren", "layer", "nonce-then-getchildren", hx(`<wb><m>M</m>I</wb>`), hx(out))
	}
	// blocks that hold only an HTML comment, or only Go code
	if e.mine("layer comment-only-block") {
		var sb strings.Builder
		err := tmpl.CommentOnlyBlock(tmpl.Twice("t")).Render(templ.InitializeContext(context.Background()), &sb)
		out := c13Canon(sb.String())
		if err != nil {
			out = "ERR:" + err.Error()
		}
		e.emit("layer comment-only-block", "layer", "comment-only-block", hx(`<cb><twid="t"><!--marker-->|<!--marker--></tw></cb>`), hx(out))
		calls := 0
		sb.Reset()
		err = tmpl.CodeOnlyBlock(tmpl.Twice("t"), func() { calls++ }).Render(templ.InitializeContext(context.Background()), &sb)
		out = c13Canon(sb.String()) + fmt.Sprintf("calls=%d", calls)
		if err != nil {
			out = "ERR:" + err.Error()
		}
		e.emit("layer code-only-block", "layer", "code-only-block", hx(`<gb><twid="t">|</tw></gb>calls=2`), hx(out))
	}
	// the four shapes that leaked before the repair, and the basic ones
	fixed := []string{}
	_ = fixed
	n := 3000
	if tier == "thorough" {
		n = 80000
	}
	for i := 0; i < n; i++ {
		tagN := 0
		do(c13Gen(r, 1+r.intn(4), &tagN, false))
	}
}

type capWriter struct {
	sb    strings.Builder
	limit int
}

func (w *capWriter) Write(p []byte) (int, error) {
	if w.sb.Len()+len(p) > w.limit {
		panic("unbounded output: a block renders itself")
	}
	return w.sb.Write(p)
}
