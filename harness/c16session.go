package main

import (
	"context"
	"fmt"
	"os"
	"os/exec"
	"path/filepath"
	"strings"
	"time"

	"github.com/a-h/templ/cmd/templ/generatecmd"
	templruntime "github.com/a-h/templ/runtime"
)

// c16FixedSessions: edit sequences (template bodies) in which an expression, a call or a block moves through static
// text while the static text, put end to end, stays the same; text-only edits and their reversal.
var c16FixedSessions = [][]string{
	{`<p class="greeting">{ s }</p><p class="tagline"></p>`, `<p class="greeting"></p><p class="tagline">{ s }</p>`},
	{`{ s }<b>!</b><i></i>`, `<b>!</b>{ s }<i></i>`, `{ s }<b>!</b><i></i>`},
	{`<p>hello</p>`, `<p>bye now</p>`, `<p>hello</p>`},
	{`@leaf(s)<i>a</i><b></b>`, `<i>a</i>@leaf(s)<b></b>`},
	{`<b>x</b>{ s }<i>y</i>{ t }<u>z</u>`, `<b>x</b><i>y</i>{ s }{ t }<u>z</u>`, `<b>x</b><i>y</i>{ s }<u>z</u>{ t }`},
	{`<p>a</p>{ s }<p>b</p>`, `<p>a</p><p>b</p>{ s }`, `<p>a</p><p>bb</p>{ s }`},
	{`<p>sale</p>{ s }`, `<p>50% off, 100%; %s</p>{ s }`, `<p style="width: 100%">%d{ s }</p>`},
}

// c16Sessions drives the REAL FSEventHandler (development mode) through edit sequences of one template file and reports,
// after each sequence, the development text file on disk together with the literals of the last version; and for every
// step the handler's own "needs recompilation" verdict with the code before and after.
func c16Sessions(e *emitter, r *rng, tier string, bodies []string) {
	root := os.Getenv("VERIF_ROOT")
	if root == "" {
		root = "/verif"
	}
	base := filepath.Join(workDir, "c16sess")
	if workDir == "" {
		base = filepath.Join(root, ".work", "c16sess")
	}
	os.MkdirAll(base, 0o755)
	defer os.RemoveAll(base)
	if os.Getenv("TEMPL_DEV_MODE_ROOT") == "" {
		os.Setenv("TEMPL_DEV_MODE_ROOT", base)
	}
	sessions := append([][]string{}, c16FixedSessions...)
	n := 120
	if tier == "thorough" {
		n = 2500
	}
	for i := 0; i < n && len(bodies) > 0; i++ {
		k := 2 + r.intn(3)
		seq := make([]string, k)
		for j := range seq {
			if j > 0 && r.chance(1, 4) {
				seq[j] = seq[r.intn(j)] // come back to an earlier version
			} else {
				seq[j] = r.pick(bodies)
			}
		}
		sessions = append(sessions, seq)
	}
	t0 := time.Now().Add(-time.Hour).Truncate(time.Second)
	for si, seq := range sessions {
		key := "session " + strings.Join(seq, "\x00")
		if !e.mine(key) {
			continue
		}
		dir := filepath.Join(base, fmt.Sprintf("s%d", si))
		os.MkdirAll(dir, 0o755)
		file := filepath.Join(dir, "t.templ")
		h := generatecmd.NewFSEventHandler(quietLog, dir, true, nil, false, true, func(string, []byte) error { return nil }, false)
		var flags []string
		prevSrc, prevCode, lastSrc := "", "", ""
		ok := true
		for k, body := range seq {
			src := tgenPrelude + "templ T(" + tgenSig + ") {\n\t" + body + "\n}\n"
			_, code, gerr := c16Gen(src)
			if gerr != nil {
				ok = false
				break
			}
			os.WriteFile(file, []byte(src), 0o644)
			mt := t0.Add(time.Duration(si*10+k) * time.Second)
			if si%4 == 3 && k > 0 && k == len(seq)-1 {
				// the last version arrives with an OLDER modification time than anything seen (a backup put back with
				// mv / cp -p / rsync -t, a file checked out from an archive)
				mt = t0.Add(time.Duration(si*10)*time.Second - 30*time.Minute)
			}
			os.Chtimes(file, mt, mt)
			res, err := h.HandleEvent(context.Background(), fsEvent(file))
			if err != nil {
				ok = false
				break
			}
			f := ""
			if res.GoUpdated {
				f += "G"
			}
			if res.TextUpdated {
				f += "T"
			}
			if f == "" {
				f = "-"
			}
			flags = append(flags, f)
			if k > 0 {
				// the handler's own verdict on this edit
				e.emit("pair-h "+prevSrc+"\x00"+src, "pair", fmt.Sprint(res.GoUpdated), hx(prevSrc), hx(src), hx(prevCode), hx(code))
			}
			prevSrc, prevCode, lastSrc = src, code, src
		}
		if !ok {
			e.count("session-with-rejected-version")
			os.RemoveAll(dir)
			continue
		}
		op, _, _ := c16Gen(lastSrc)
		txt, rerr := os.ReadFile(templruntime.GetDevModeTextFileName(file))
		disk := hx(string(txt))
		if rerr != nil {
			disk = "MISSING"
		}
		e.emit(key, "session", fmt.Sprint(len(seq)), strings.Join(flags, ","), joinHex(op.Literals), disk)
		os.Remove(templruntime.GetDevModeTextFileName(file))
		os.RemoveAll(dir)
	}
}

// runDevServe is a child that stays alive in development mode (TEMPL_DEV_MODE=true): it rewrites its own development
// text file and reads it back through the real runtime.WriteString — a load, a rewrite straight after the load, a look
// after the throttle interval — the way a browser reload follows a save. Prints round<TAB>phase<TAB>want<TAB>got.
func runDevServe(e *emitter, tier string, seed uint64) {
	txt := templruntime.GetDevModeTextFileName(devLitSelfPath())
	rounds := 6
	if tier == "thorough" {
		rounds = 25
	}
	read := func() string {
		var sb strings.Builder
		if err := devLitWrite(&sb, 1); err != nil {
			return "ERR:" + err.Error()
		}
		return sb.String()
	}
	for k := 0; k < rounds; k++ {
		a, b := fmt.Sprintf("A%d", k), fmt.Sprintf("B%d", k)
		os.WriteFile(txt, []byte(a), 0o644)
		time.Sleep(120 * time.Millisecond)
		got := read()
		fmt.Fprintf(e.w, "%d\tloaded\t%s\t%s\n", k, hx(a), hx(got))
		os.WriteFile(txt, []byte(b), 0o644) // the next save lands right after the program loaded the file
		time.Sleep(150 * time.Millisecond)
		got = read()
		fmt.Fprintf(e.w, "%d\tafter-rewrite\t%s\t%s\n", k, hx(b), hx(got))
		time.Sleep(120 * time.Millisecond)
		got = read()
		fmt.Fprintf(e.w, "%d\tlater\t%s\t%s\n", k, hx(b), hx(got))
	}
	// a program that renders all the time (a ticker component, polling tabs): a rewrite is still noticed
	for k := 0; k < 2; k++ {
		v := fmt.Sprintf("BUSY%d", k)
		stop := make(chan struct{})
		done := make(chan struct{})
		go func() {
			defer close(done)
			for {
				select {
				case <-stop:
					return
				default:
					read()
					time.Sleep(20 * time.Millisecond)
				}
			}
		}()
		time.Sleep(150 * time.Millisecond)
		os.WriteFile(txt, []byte(v), 0o644)
		time.Sleep(700 * time.Millisecond)
		got := read()
		close(stop)
		<-done
		fmt.Fprintf(e.w, "%d\tunder-constant-rendering\t%s\t%s\n", rounds+k, hx(v), hx(got))
	}
}

// c16TextFileNames: the generator (which gets the path from the file watcher) and the running program (which resolves
// the path of its own source file) must arrive at the same text file, also when the project is reached through a
// symbolic link.
func c16TextFileNames(e *emitter) {
	if !e.mine("txtname") {
		return
	}
	base := workDir
	if base == "" {
		base = os.TempDir()
	}
	real, err := os.MkdirTemp(base, "txtreal")
	if err != nil {
		return
	}
	defer os.RemoveAll(real)
	link := real + "-link"
	if os.Symlink(real, link) != nil {
		return
	}
	defer os.Remove(link)
	os.WriteFile(filepath.Join(real, "page.templ"), []byte("package p\n"), 0o644)
	os.WriteFile(filepath.Join(real, "page_templ.go"), []byte("package p\n"), 0o644)
	for _, name := range []string{"page.templ", "page_templ.go"} {
		viaReal := templruntime.GetDevModeTextFileName(filepath.Join(real, name))
		viaLink := templruntime.GetDevModeTextFileName(filepath.Join(link, name))
		e.emit("txtname "+name, "txtname", name, hx(filepath.Base(viaReal)), hx(filepath.Base(viaLink)))
	}
}

// c16Live starts the long-running development-mode child and reports what it saw.
func c16Live(e *emitter, tier string) {
	if !e.mine("live") {
		return
	}
	self, _ := os.Executable()
	cmd := exec.Command(self, "devserve", "-tier", tier)
	cmd.Env = append(os.Environ(), "TEMPL_DEV_MODE=true")
	out, err := cmd.Output()
	lines := strings.Split(strings.TrimRight(string(out), "\n"), "\n")
	if err != nil || len(lines) < 3 {
		e.emit("live failed", "live", "0", "child", hx("child ran"), hx(fmt.Sprintf("ERR:%v (%d lines)", err, len(lines))))
		return
	}
	for _, l := range lines {
		f := strings.Split(l, "\t")
		if len(f) == 4 {
			e.emit("live "+f[0]+" "+f[1], "live", f[0], f[1], f[2], f[3])
		}
	}
}
