namespace Tbl
abbrev Bytes := List UInt8

def table : Array (Option Bytes) := #[
  some [92,117,48,48,48,48], none, none, none, none, none, none, none, none, some [92,116], some [92,110], some [92,117,48,48,48,98], some [92,102], some [92,114], none, none,
  none, none, none, none, none, none, none, none, none, none, none, none, none, none, none, none,
  none, none, some [92,117,48,48,50,50], none, none, none, some [92,117,48,48,50,54], some [92,117,48,48,50,55], none, none, none, some [92,117,48,48,50,98], none, none, none, some [92,47],
  none, none, none, none, none, none, none, none, none, none, none, none, some [92,117,48,48,51,99], none, some [92,117,48,48,51,101], none,
  none, none, none, none, none, none, none, none, none, none, none, none, none, none, none, none,
  none, none, none, none, none, none, none, none, none, none, none, none, some [92,92], none, none, none,
  some [92,117,48,48,54,48]]

def dangerous : List Nat := [34, 39, 96, 60, 62, 38, 92, 10, 13]

theorem covers : ∀ c ∈ dangerous, (table[c]?).join.isSome = true := by decide

def safeByte (b : UInt8) : Bool := !(b == 34 || b == 39 || b == 96 || b == 60 || b == 62 || b == 38 || b == 10 || b == 13)

def entrySafe (i : Nat) : Bool := match table[i]? with
  | some (some bs) => bs.all safeByte
  | _ => true

theorem outputs_safe : (List.range 97).all entrySafe = true := by decide

theorem outputs_safe' (i : Nat) : entrySafe i = true := by
  by_cases h : i < 97
  · have := outputs_safe
    rw [List.all_eq_true] at this
    exact this i (List.mem_range.mpr h)
  · unfold entrySafe
    have : table[i]? = none := by
      apply Array.getElem?_eq_none
      simp [table] at *
      omega
    simp [this]

end Tbl
