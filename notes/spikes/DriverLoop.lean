import Spike.Basic
open Spike

def hexVal (c : UInt8) : UInt8 :=
  if c ≥ 48 && c ≤ 57 then c - 48 else if c ≥ 97 && c ≤ 102 then c - 87 else 0

def unhex (s : ByteArray) : List UInt8 := Id.run do
  let mut out : Array UInt8 := #[]
  let mut i := 0
  while i + 1 < s.size do
    out := out.push (hexVal s[i]! * 16 + hexVal s[i+1]!)
    i := i + 2
  return out.toList

def hexDigit (n : UInt8) : UInt8 := if n < 10 then 48 + n else 87 + n

def tohex (l : List UInt8) : String :=
  String.mk (l.flatMap fun b => [Char.ofNat (hexDigit (b / 16)).toNat, Char.ofNat (hexDigit (b % 16)).toNat])

partial def loop (h : IO.FS.Stream) (n : Nat) : IO Nat := do
  let line ← h.getLine
  if line.isEmpty then return n
  let bs := unhex line.trimRight.toUTF8
  let out := escape bs
  let ok := decide (decode out = bs) && (out.all fun c => !structural c)
  IO.println s!"{tohex out} {ok}"
  loop h (n+1)

def main : IO Unit := do
  let n ← loop (← IO.getStdin) 0
  IO.eprintln s!"lines {n}"
