namespace Spike

abbrev Bytes := List UInt8

def amp : Bytes := [38, 97, 109, 112, 59]
def lt : Bytes := [38, 108, 116, 59]
def gt : Bytes := [38, 103, 116, 59]
def q34 : Bytes := [38, 35, 51, 52, 59]
def q39 : Bytes := [38, 35, 51, 57, 59]


def escByte (b : UInt8) : Bytes :=
  if b = 38 then amp
  else if b = 60 then lt
  else if b = 62 then gt
  else if b = 34 then q34
  else if b = 39 then q39
  else [b]

def escape (s : Bytes) : Bytes := s.flatMap escByte

def structural (b : UInt8) : Bool := b = 60 || b = 62 || b = 34 || b = 39

theorem escByte_noStructural (b : UInt8) : ∀ c ∈ escByte b, structural c = false := by
  intro c hc
  unfold escByte at hc
  repeat' split at hc
  all_goals simp [amp, lt, gt, q34, q39] at hc
  all_goals first
    | (rcases hc with h|h|h|h|h <;> subst h <;> decide)
    | (rcases hc with h|h|h|h <;> subst h <;> decide)
    | (subst hc; simp_all [structural])

theorem escape_noStructural (s : Bytes) : ∀ c ∈ escape s, structural c = false := by
  intro c hc
  simp [escape, List.mem_flatMap] at hc
  obtain ⟨b, _, hb⟩ := hc
  exact escByte_noStructural b c hb

/-- Character reference decoding restricted to what a tokenizer does for the five
references the escaper can emit (fuel-free: structural on the list). -/
def decode : Bytes → Bytes
  | 38 :: 97 :: 109 :: 112 :: 59 :: r => 38 :: decode r
  | 38 :: 108 :: 116 :: 59 :: r => 60 :: decode r
  | 38 :: 103 :: 116 :: 59 :: r => 62 :: decode r
  | 38 :: 35 :: 51 :: 52 :: 59 :: r => 34 :: decode r
  | 38 :: 35 :: 51 :: 57 :: 59 :: r => 39 :: decode r
  | b :: r => b :: decode r
  | [] => []

theorem escape_cons (b : UInt8) (r : Bytes) : escape (b :: r) = escByte b ++ escape r := by
  simp [escape]

theorem decode_escape (s : Bytes) : decode (escape s) = s := by
  induction s with
  | nil => simp [escape, decode]
  | cons b r ih =>
    rw [escape_cons]
    by_cases h1 : b = 38
    · subst h1; simp [escByte, amp, decode, ih]
    by_cases h2 : b = 60
    · subst h2; simp [escByte, lt, decode, ih]
    by_cases h3 : b = 62
    · subst h3; simp [escByte, gt, decode, ih]
    by_cases h4 : b = 34
    · subst h4; simp [escByte, q34, decode, ih]
    by_cases h5 : b = 39
    · subst h5; simp [escByte, q39, decode, ih]
    · simp only [escByte, h1, h2, h3, h4, h5, if_false, List.singleton_append]
      rw [decode]
      · rw [ih]
      all_goals (intros; simp_all)

end Spike
