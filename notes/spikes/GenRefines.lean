namespace Tree

abbrev Bytes := List UInt8

inductive Node where
  | text (v : Bytes) (trail : Bool)
  | strE (e : Nat) (trail : Bool)
  | elem (name : Bytes) (inline : Bool) (kids : List Node) (trail : Bool)
  | ifE (c : Nat) (thn : List Node) (els : List Node)

inductive Op where
  | lit (s : Bytes)
  | str (e : Nat)
  | ifOp (c : Nat) (thn els : List Op)

def Node.inlineOrText : Node → Bool
  | .text .. => true
  | .strE .. => true
  | .elem _ i _ _ => i
  | .ifE .. => true

def Node.trailing : Node → Bool
  | .text _ t => t
  | .strE _ t => t
  | .elem _ _ _ t => t
  | .ifE .. => false

mutual
def gen (n : Node) (next : Option Node) : List Op :=
  let body : List Op := match n with
    | .text v _ => [.lit v]
    | .strE e _ => [.str e]
    | .elem name _ kids _ => [.lit ([60] ++ name ++ [62])] ++ genList kids none ++ [.lit ([60,47] ++ name ++ [62])]
    | .ifE c thn els => [.ifOp c (genList thn next) (genList els next)]
  let needed := n.inlineOrText && (match next with | some m => m.inlineOrText | none => false)
  if needed && n.trailing then body ++ [.lit [32]] else body
def genList (ns : List Node) (next : Option Node) : List Op :=
  match ns with
  | [] => []
  | [n] => gen n next
  | n :: m :: rest => gen n (some m) ++ genList (m :: rest) next
end

structure Env where
  str : Nat → Bytes
  cond : Nat → Bool

mutual
def exec (env : Env) : Op → Bytes
  | .lit s => s
  | .str e => env.str e
  | .ifOp c t e => if env.cond c then execList env t else execList env e
def execList (env : Env) : List Op → Bytes
  | [] => []
  | o :: os => exec env o ++ execList env os
end

theorem execList_append (env : Env) (a b : List Op) : execList env (a ++ b) = execList env a ++ execList env b := by
  induction a with
  | nil => simp [execList]
  | cons o os ih => simp [execList, ih]


/-- Independent denotation: what the tree means, written without reference to `gen`. -/
def sep (n : Node) (next : Option Node) : Bytes :=
  if n.inlineOrText && (match next with | some m => m.inlineOrText | none => false) && n.trailing then [32] else []

mutual
def denote (env : Env) (n : Node) (next : Option Node) : Bytes :=
  (match n with
    | .text v _ => v
    | .strE e _ => env.str e
    | .elem name _ kids _ => [60] ++ name ++ [62] ++ denoteList env kids none ++ [60,47] ++ name ++ [62]
    | .ifE c thn els => if env.cond c then denoteList env thn next else denoteList env els next)
  ++ sep n next
def denoteList (env : Env) (ns : List Node) (next : Option Node) : Bytes :=
  match ns with
  | [] => []
  | [n] => denote env n next
  | n :: m :: rest => denote env n (some m) ++ denoteList env (m :: rest) next
end

theorem execList_singleton (env : Env) (o : Op) : execList env [o] = exec env o := by
  simp [execList]

mutual
theorem gen_refines (env : Env) (n : Node) (next : Option Node) :
    execList env (gen n next) = denote env n next := by
  cases n with
  | text v t =>
    unfold gen denote sep
    simp only []
    repeat' split
    all_goals simp_all [execList, exec]
  | strE e t =>
    unfold gen denote sep
    simp only []
    repeat' split
    all_goals simp_all [execList, exec]
  | elem name i kids t =>
    have ih := genList_refines env kids none
    unfold gen denote sep
    simp only []
    repeat' split
    all_goals simp_all [execList_append, execList, exec]
  | ifE c thn els =>
    have ih1 := genList_refines env thn next
    have ih2 := genList_refines env els next
    unfold gen denote sep
    simp only []
    repeat' split
    all_goals simp_all [execList_append, execList, exec, Node.trailing]
theorem genList_refines (env : Env) (ns : List Node) (next : Option Node) :
    execList env (genList ns next) = denoteList env ns next := by
  match ns with
  | [] => simp [genList, denoteList, execList]
  | [n] =>
    have := gen_refines env n next
    simpa [genList, denoteList] using this
  | n :: m :: rest =>
    have h1 := gen_refines env n (some m)
    have h2 := genList_refines env (m :: rest) next
    simp [genList, denoteList, execList_append, h1, h2]
end

end Tree
