"""Per-property configuration for ./check (what is proved, what is only monitored, trusted base, generation rule)."""

STD_ASSUME = ["the Lean model is tied to /repo by the T1 extractor and the T2 correspondence run of this check; "
              "agreement outside the explored inputs rests on the model being a line-by-line transcription"]

HOOK_COMMITS = ["9665c83 verif hooks: yield points in the sse delivery goroutine and handler exit path"]

PROPS = {
    "C02": {
        "claimed": True,
        "model_modules": ["TemplVerif.Model.Ast", "TemplVerif.Model.Sem", "TemplVerif.Model.Gen", "TemplVerif.Model.Denote", "TemplVerif.Generated.Elements"],
        "proof_modules": ["TemplVerif.Proofs.GenBase", "TemplVerif.Proofs.Gen"],
        "quick_shards": 4, "thorough_shards": 14,
        "level_text": "PROVED in Lean 4, for EVERY template body (all nestings of all 16 node kinds and 6 attribute kinds) and every environment: "
                      "C02_refines_hoistAll - running the statements the generator emits (model Gen.genNodes + Gen.exec, a transcription of "
                      "writeNodes/writeNode/the attribute writers) writes exactly the document, returns exactly the error and evaluates exactly "
                      "the expressions, in the order, of the direct reading of the tree (Denote), with class/on* expressions below conditional "
                      "attributes announced unconditionally; C02_refines_partial - hence equals the denotation for every template without such an "
                      "attribute; C02_counterexample - and differs with one (known finding); the whitespace clauses C02_space_not_invented, "
                      "C02_space_kept, C02_successor_skips_whitespace. T1 (C02_pinned + Generated.Elements): void/block tables, isInlineOrText "
                      "cases, value-writer chain, hoisted names are re-extracted from the source on every run. CHECKED (T2): batches of "
                      "grammar-generated templates in many spellings are run through the REAL templ generate, compiled with go build, rendered "
                      "with several value tables (incl. failing expressions and components), and bytes / error / evaluation trace are compared "
                      "with BOTH the model of the generated code (mismatch) and the denotation (violation) on the tree the REAL parser built.",
        "level_note": "Not proved: that the generated Go type-checks (observed: every batch must compile). Go expressions are opaque: their values "
                      "come from oracle functions (recorded evaluation), so 'for all argument values' is over value tables, not over Go programs. "
                      "CSS components in class expressions, css/script TEMPLATES and nonce handling are outside this model (C05, C12, C03).",
        "rule": "1 (3) batch(es) per shard of 100 (400) accepted templates x 4 (6) value tables over 12 keys from 27 adversarial strings; "
                "Non-trivial = more than one expression evaluated.",
        "exhaustive": False,
        "proved": ["C02_refines_hoistAll", "C02_refines_partial", "C02_counterexample", "C02_space_not_invented", "C02_space_kept",
                   "C02_successor_skips_whitespace", "C02_pinned",
                   "C02_transcription_pinned (T1: control structure and calls of 51 functions of generator.go)"],
        "monitored": ["hand-written static fixtures also cover body-less switch clauses and a class / script first used inside the block of a call", "every batch of generated code compiles", "rendered bytes / error / trace = Gen.run (model)", "= Denote.run (specification)"],
        "partial": ["Go type checking of generated code is observed, not proved", "expressions are oracle calls"],
        "trusted_base": ["Go compiler", "the oracle vocabulary harness/c02oracle and the harness's value tables"],
        "assumptions": STD_ASSUME,
    },
    "C15": {
        "claimed": True,
        "race_build": True,
        "quick_shards": 6, "thorough_shards": 14,
        "model_modules": ["TemplVerif.Model.Fs", "TemplVerif.Generated.Walk"],
        "proof_modules": ["TemplVerif.Proofs.Fs"],
        "level_text": "PROVED in Lean 4 for the model of the walk and the per-file handlers (each handler = look at the file system, later "
                      "change it): C15_spec - EVERY complete interleaving of the look/act steps of all handlers (so every worker count and "
                      "schedule) ends in exactly the tree the specification gives and counts exactly the files that cannot be generated; "
                      "C15_schedule_independent; C15_generated / C15_orphan / C15_untouched spell the specification out (every visited .templ "
                      "file gets the generation of itself alone, orphans go unless kept, nothing else changes, a failing file changes nothing "
                      "else); C15_idempotent - a second run changes no content and fails for the same files. T1 (C15_pinned): skip lists, "
                      "dirs-only skipping, handler suffixes, sibling naming and watch pattern are re-extracted from the source on every run. "
                      "CHECKED, not proved: that the real CLI is this model - random trees (skipped and non-skipped directory names, "
                      "underscore/dot-prefixed FILE names, stale siblings, orphans, unparseable templates, templates whose Go does not format, "
                      "unrelated files) x -w 1..16 x GOMAXPROCS 1..16 x keep-orphaned / lazy / include-version, through a RACE-INSTRUMENTED "
                      "templ binary, twice; tree, exit status, modification times and race reports are compared with the specification.",
        "level_note": "The generation of one file alone (genOf) is a parameter of the theorems - C02 is about what it is; the harness obtains it from "
                      "the library pipeline outside the CLI. Data-race freedom of the handler's shared maps/options is supported by the race "
                      "detector on sampled schedules, not proved. -lazy is checked under its stated precondition (a newer sibling is a correct generation).",
        "rule": "60 (3000) random trees: 1-6 directories to depth 3 from 14 names (half of them skipped kinds), 1-12 files from 11 stems x 9 kinds. "
                "Non-trivial = the specification writes or removes at least one file.",
        "exhaustive": False,
        "proved": ["C15_spec", "C15_schedule_independent", "C15_sequential_complete", "C15_generated", "C15_orphan", "C15_untouched", "C15_idempotent", "C15_pinned",
                   "C15_transcription_pinned (T1: control structure and calls of eventhandler.go:FileWriter, eventhandler.go:FSEventHandler.HandleEvent, eventhandler.go:FSEventHandler.UpsertLastModTime, watch.go:WalkFiles)"],
        "monitored": ["tree after run 1 = spec(tree before)", "exit status <-> some visited template cannot be generated", "run 2 changes nothing",
                      "only written/removed paths get a new mtime", "race detector reports of the templ binary"],
        "partial": ["real goroutine scheduling and the Go memory model", "symlinks, watch mode, -f single-file mode, custom watch patterns, file names containing line breaks"],
        "trusted_base": ["os / io/fs.WalkDir semantics", "Go race detector (support only)", "go/format"],
        "assumptions": STD_ASSUME,
    },
    "C14": {
        "claimed": True,
        "race_build": True,
        "model_modules": ["TemplVerif.Model.Pool", "TemplVerif.Model.Buf"],
        "proof_modules": ["TemplVerif.Proofs.Pool"],
        "level_text": "PROVED in Lean 4 (C14_isolated): for every interleaving of any number of goroutines over the modelled steps (take some "
                      "buffer out of the pool - any idle one, in whatever state earlier, possibly failed, renders left it, or a new one; render "
                      "while owning it; put it back), every finished goroutine has exactly the bytes and the error it gets when rendering alone "
                      "with a fresh buffer. This rests on C10_pool (a pooled buffer contributes only its capacity). NOT PROVED, checked: "
                      "data-race freedom under the Go memory model - a race-instrumented build of the harness runs 12 (16) goroutines x 60 (400) "
                      "renders of shared package-level components (generated templates, Join, shared Once handle, css/script registries, failing "
                      "expressions and components, a 64 KiB literal) into plain, slow and failing writers, through the buffered HTTP handler and "
                      "with cancelled contexts, in normal mode and in development mode (shared text-file cache), comparing every result with the "
                      "sequential reference; any race report, fatal runtime error or differing output is a violation.",
        "level_note": "Partial by nature: the theorem quantifies over all schedules of the MODEL's atomic steps and assumes sync.Pool and "
                      "sync.Mutex behave as specified; that the code's critical sections are these steps, and the absence of data races, is "
                      "supported by the race detector on sampled schedules only.",
        "rule": "2 (6) rounds x {normal, development mode} of 12 (16) goroutines x 60 (400) operations drawn from 11 shared components x 5 kinds "
                "(plain, slow writer, failing writer at a random offset, buffered HTTP handler, cancelled context). Non-trivial = more than 100 renders in a round.",
        "exhaustive": False,
        "proved": ["C14_isolated (schedule independence at step granularity)",
                   "C14_transcription_pinned (T1: control structure and calls of buffer.go:Buffer.Reset, bufferpool.go:GetBuffer, bufferpool.go:ReleaseBuffer)"],
        "monitored": ["race detector reports", "every concurrent result = sequential reference", "no fatal runtime error (concurrent map access)"],
        "partial": ["Go memory model / data-race freedom is not proved"],
        "trusted_base": ["sync.Pool, sync.Mutex", "Go race detector (support only)"],
        "assumptions": STD_ASSUME,
    },
    "C16": {
        "claimed": True,
        "model_modules": ["TemplVerif.Model.Quote", "TemplVerif.Model.Watch"],
        "proof_modules": ["TemplVerif.Proofs.Quote"],
        "level_text": "Lean 4 theorems: for every byte string and every behaviour of unicode.IsPrint that does not call LF printable, "
                      "strconv.Unquote inverts the generator's strconv.Quote escaping and the escaped literal contains no raw line break "
                      "(C16_roundtrip); hence for every list of literals, line i of the development text file unquotes to the literal the "
                      "normally generated code carries at index i (C16_devmode); and whenever the model of HasChanged reports no change, a "
                      "compiled template - a function of its code-without-literals and of the literals read at run time - reading the updated "
                      "text file is the newly generated program (C16_norecompile). What HasChanged compares and where the code digest is "
                      "suspended are regenerated from generator.go / rangewriter.go and pinned (C16_haschanged_pinned). Between an edit and the "
                      "running program: after ANY sequence of edits handled by one handler the text file on disk is the one for the last "
                      "version, because the digest guarding the write is taken of the written text (C16_textfile_current[_joined], induction over "
                      "the edit list; C16_textguard_pinned T1; C16_textfile_concat_counterexample shows a separator-less digest fails); and the "
                      "running program's cache, which remembers the FILE's modification time, returns the current lines on every look 100 ms or "
                      "more after the last rewrite and keeps its invariant under loads, looks and rewrites (C16_watch_fresh, C16_watch_inv; "
                      "C16_watch_pinned T1; C16_watch_loadtime_counterexample shows remembering the load time fails). Compared on every run "
                      "with the real strconv.Quote/Unquote (IsPrint supplied per string), the real literals and text-file round trip of repo and "
                      "grammar-generated templates, 20 fixture components rendered normally and in a TEMPL_DEV_MODE child process fed by the "
                      "real FSEventHandler, and thousands of edit pairs through the real HasChanged with the Lean predicate 'no change => code "
                      "differs only in literals'.",
        "level_note": "Trusted: SHA-256 collision resistance (digest equality stands for equality of the code without literals); the Go "
                      "compiler reads an interpreted string literal as strconv.Unquote does; unicode.IsPrint is a parameter; the file system gives a "
                      "rewrite a modification time later than the one the program saw (two rewrites within one clock tick of the file system "
                      "are outside the cache theorem, and within 100 ms of the remembered time the program does not look at all: the property "
                      "is about what is shown once that interval has passed); the T1 facts are expression texts of watchmode.go / eventhandler.go.",
        "rule": "Quote/Unquote: all strings to length 3 (4) over 25 symbols (quotes, backslash, controls, NBSP, U+2028, BOM, invalid bytes, "
                "astral) + random runes; literals of 63 repo templates, seeds with CRLF and 200 (4000) generated templates; 20 fixtures in "
                "dev mode; edit pairs: every two-slot template over 31 node forms grouped by (literal count, expression list), all pairs within "
                "groups + random cross pairs; 6 fixed + 120 (2500) random edit sessions of 2-4 versions through the real FSEventHandler "
                "(text file on disk vs the last version's literals; the handler's own recompilation verdict per step); one long-running "
                "development-mode child, 6 (25) rounds of load / rewrite straight after the load / look after 150 ms / look again. "
                "Non-trivial = escaping changed the string / HasChanged said no recompilation.",
        "exhaustive": True,
        "proved": ["C16_roundtrip", "C16_devmode", "C16_norecompile", "C16_haschanged_pinned (T1)", "C16_textfile_current", "C16_textfile_current_joined",
                   "C16_textguard_pinned (T1)", "C16_watch_fresh", "C16_watch_inv", "C16_watch_pinned (T1)", "C16_window_rebuild", "C16_window_pinned (T1)",
                   "C16_transcription_pinned (T1: control structure and calls of eventhandler.go:FSEventHandler.UpsertHash, watchmode.go:WriteString, watchmode.go:cacheStrings, watchmode.go:getWatchedStrings)"],
        "monitored": ["the development text file name reached through a symbolic link = the name through the real path", "a program rendered every 20 ms still shows a rewrite of its text file within 700 ms", "edit sessions whose last version arrives with an older modification time", "model = real strconv.Quote / Unquote", "real literals survive the text file", "dev-mode render = normal render (child process)",
                      "HasChanged false => generated code equal outside literals (also with the real handler's verdict per edit)",
                      "text file on disk after an edit session = text file of the last version (real FSEventHandler)",
                      "a long-running development-mode process shows every rewrite of its text file once the throttle interval has passed"],
        "partial": ["file-system clock granularity: two rewrites within one tick, and looks within 100 ms of the remembered time, are outside the cache theorem"],
        "trusted_base": ["SHA-256", "Go compiler's string literal semantics = strconv.Unquote", "unicode.IsPrint as a parameter"],
        "assumptions": STD_ASSUME,
    },
    "C12": {
        "claimed": True,
        "model_modules": ["TemplVerif.Model.Registry", "TemplVerif.Model.Denote"],
        "proof_modules": ["TemplVerif.Proofs.Registry", "TemplVerif.Proofs.RegistryAux", "TemplVerif.Proofs.ComposeErr", "TemplVerif.Proofs.PrefixBase", "TemplVerif.Proofs.Prefix"],
        "level_text": "Lean 4 theorems, by induction over ANY sequence of uses (script rendered as a component, on* attributes referencing scripts, "
                      "class expressions holding CSS components in every container form the runtime switches on, once-handle renders) in one "
                      "context: each script definition, CSS rule and once content is emitted at most once (C12_once), a script call is always "
                      "preceded by its definition (C12_before_script) and a class name by its rule unless the middleware registered the class "
                      "(C12_before_class), every use still gets its call / class names (C12_every_use), registered classes are never inlined "
                      "(C12_middleware), and contexts are independent (the state is a value of the context). The model is compared with the "
                      "real RenderScriptItems / ComponentScript.Render / RenderCSSItems / CSSClasses.String / OnceHandle / NewCSSMiddleware on "
                      "random use histories over one or two contexts and over three consecutive requests through one middleware, with the real "
                      "output parsed into the model's events; hoisting in generated code is checked on a fixture with conditional-attribute "
                      "branches.",
        "level_note": "Trusted: the event parser of the harness (regular expressions over the rendered bytes); hash-suffix collisions of generated "
                      "class / script names are assumed absent; the generator's hoisting for arbitrary templates rests on C02's generator model - "
                      "here one fixture with then/else/nested conditional attributes is rendered in all four configurations.",
        "rule": "1500 (40000) random histories of 1-8 uses over 4 scripts, 4 classes, 3 once handles, in 1-2 contexts; class items drawn from 9 "
                "container forms incl. nesting; 150 (4000) middlewares x 3 consecutive requests + the stylesheet endpoint; 4 hoisting renders. "
                "Non-trivial = more than two uses.",
        "exhaustive": False,
        "proved": ["C12_once", "C12_before_script", "C12_before_class", "C12_every_use", "C12_middleware", "C12_independent",
                   "whole templates (Denote, every tree and environment): the script definitions emitted during one render are pairwise different (C12_template_scripts_once, C12_template_emit)",
                   "C12_transcription_pinned (T1: control structure and calls of runtime.go:renderCSSItemsToBuilder, once.go:OnceHandle.Once, scripttemplate.go:RenderScriptItems)"],
        "monitored": ["two script templates that are different functions never share a function name (known finding for same body / different parameters)", "model events = events parsed from the real output", "property predicate on the real events", "stylesheet endpoint = registered classes"],
        "partial": ["CSS class rules and once handles in arbitrary templates are outside the template semantics (Denote carries script emission only); they are covered by the registry model and its event run"],
        "trusted_base": ["harness event parser", "Go map semantics of contextValue.ss"],
        "assumptions": STD_ASSUME,
    },
    "C13": {
        "claimed": True,
        "model_modules": ["TemplVerif.Model.Children"],
        "proof_modules": [],
        "thorough_shards": 8,
        "level_text": "Lean 4 theorem C13_main: for EVERY call tree over the generated call shapes (callees that use, ignore or repeat their "
                      "slot; block-less calls; calls with a block containing a nested block-less call; blocks that forward the enclosing "
                      "template's own children; sibling sequences) mixed with Once (with and without WithComponent, spent or not), Flush, Join "
                      "and function components that ignore or render their children, the model of the context-based code (children slot in "
                      "the context value; WithChildren derives a value; a children component renders its block with an empty slot; generated "
                      "prologue reads and clears) renders exactly what explicit parameter passing denotes - each callee sees its own call "
                      "site's block and nothing else (plus C13_noblock, C13_sibling). The model is compared with the real runtime and real "
                      "generated call sites on thousands of random call trees assembled at run time from fixture combinators generated by the "
                      "real CLI, and the specification's output is compared with the real output.",
        "level_note": "The theorem is about the model; that the model is the code rests on the differential run (3000 random trees quick, 80000 "
                      "thorough, depth <= 5). Trees are built from 7 generated combinators covering every call shape the generator emits "
                      "(@c, @c { block }, { children... } inside a block); other template content is irrelevant to the children slot. "
                      "A hand-written layer (Join, Once with a fixed component) hands the context on: the first generated template it renders "
                      "consumes the block - that is what the specification says too. Rendering must start from an initialised context "
                      "(any generated template does that).",
        "rule": "random call trees of depth 1-5 over 12 constructors (use, ignore, twice, block-less call, call with block + inner call, forward, "
                "seq, once with/without fixed component over 2 shared handles, flush, join, function components ignoring / rendering children). "
                "Distinct = distinct tree; non-trivial = contains a call with a block.",
        "exhaustive": False,
        "proved": ["C13_main", "C13_noblock", "C13_sibling",
                   "C13_transcription_pinned (T1: control structure and calls of 9 functions of flush.go, generator.go, join.go, runtime.go)"],
        "monitored": ["hand-written layers that set the nonce before handing the block on; blocks that hold only an HTML comment or only Go code", "model exec = real render of the same tree", "specification denote = real render"],
        "partial": [],
        "trusted_base": ["context.WithValue semantics; Go closures capture the enclosing template's children variable"],
        "assumptions": STD_ASSUME,
    },
    "C10": {
        "claimed": True,
        "race_build": True,
        "model_modules": ["TemplVerif.Model.Buf", "TemplVerif.Model.Denote"],
        "proof_modules": ["TemplVerif.Proofs.Buf", "TemplVerif.Proofs.ComposeErr", "TemplVerif.Proofs.PrefixBase", "TemplVerif.Proofs.Prefix"],
        "thorough_shards": 8,
        "level_text": "Lean 4 theorems about the model of a generated Render over runtime.Buffer (bufio.Writer of any capacity > 0, Write / "
                      "WriteString / Flush with sticky error, large-write bypass, pool Reset-on-get): for every step list (literal and dynamic "
                      "writes, failing expressions, nested components, failing hand-written components), every capacity and EVERY fault offset in "
                      "both fault modes: the writer has received a prefix of the full document (C10_prefix); Render == nil implies the full "
                      "document, once, in order (C10_nil_full); a writer fault before the end is reported as the writer's error "
                      "(C10_fault_reported); expression/component errors are returned as such with output stopping exactly there "
                      "(C10_step_error); a cancelled context writes nothing (C10_ctx); and a render depends on the pooled buffer only through its "
                      "capacity, so a failed render never alters a later one (C10_pool). The bufio model is compared with the real "
                      "runtime.Buffer at capacities 1,3,4,8 over every fault offset x short/zero write x StringWriter or not; 15 fixture "
                      "components (generated, Join, Raw, JSONScript, Once, Flush, nested, failing expression/attribute/component, children "
                      "captured into a plain writer) are rendered with a writer failing at every offset (stride in quick) followed by a healthy "
                      "render on the same pools, and the Lean predicates are evaluated on the real observations. The caller writer of the model may also break the io.Writer contract (silent: from its limit on it takes less than it was given and returns no error): the three theorems quantify over such writers too, because runtime.Buffer puts a checking writer in front of bufio (repair 0f5e0ab); C10_unchecked_silent_stuck shows that without it the large-write loop of bufio does not move, C10_silent_zero_reported that with it the write ends with the error set.",
        "level_note": "Trusted: bufio.Writer and sync.Pool semantics as modelled (tied by T2); the correspondence between generated code and the "
                      "step list (each write followed by an error check; deferred ReleaseBuffer adopting the flush error) is observed on the "
                      "fixture templates here and by C02's generator model in general; error-position lines are checked against the real "
                      "parser's range of the failing expression.",
        "rule": "runtime.Buffer: 60 (1500) random op sequences x 4 capacities x every fault offset 0..len x 2 fault modes x 2 writer kinds; fixtures: "
                "15 components x every fault offset (stride for documents > 600 bytes in quick) x 2 modes, each followed by a healthy render; "
                "cancelled context. Non-trivial = a fault inside the document / output larger than the buffer.",
        "exhaustive": True,
        "proved": ["C10_unchecked_silent_stuck", "C10_silent_zero_reported", "C10_prefix", "C10_nil_full", "C10_fault_reported", "C10_step_error", "C10_ctx", "C10_pool",
                   "whole templates (Denote, every tree and environment): a failing render has written a prefix of the document and evaluated a prefix of the expressions of the render without failures (C10_template_prefix); no error reported => the complete document (C10_template_nil_full); nothing is written, evaluated or emitted after a failure (C10_template_frozen)",
                   "C10_transcription_pinned (T1: control structure and calls of buffer.go:Buffer.Flush, buffer.go:Buffer.Write, buffer.go:Buffer.WriteString)"],
        "monitored": ["runtime.Buffer = bufio model also for writers that break the io.Writer contract (silent short / zero writes)", "a writer that silently stops accepting bytes (no error): the render ends, and returns nil only if the writer got the whole document (Buffer.Write, Buffer.WriteString, generated template; sizes 100-9000, limits 0 / 10 / 4096)", "a component that fails by itself (also inside a Flush block) reports an error and has written a proper prefix of its non-failing variant", "the concurrent phase shared with C14 (race-built child: overlapping renders incl. CSS components and failed handler requests, every result = the render alone)", "bufio model = real runtime.Buffer (bytes received, per-operation errors)", "prefix / nil-full / fault-reported / error-line / after-failure predicates on real renders"],
        "partial": [],
        "trusted_base": ["bufio.Writer, sync.Pool"],
        "assumptions": STD_ASSUME + ["the writer honours the io.Writer contract (a short write returns an error)"],
    },
    "C06": {
        "claimed": True,
        "model_modules": ["TemplVerif.Model.Pos"],
        "proof_modules": ["TemplVerif.Proofs.Pos"],
        "thorough_shards": 12,
        "level_text": "Split claim, stated as such. PROVED in Lean 4: the position arithmetic every recorded range rests on - PositionAt (newline "
                      "table + sort.Search) returns line = number of LF before the index and column = distance from the line start for every "
                      "source and index (C06_positionAt), clamping is ordered and in bounds (C06_clamp), walking over text that is present keeps "
                      "index/line/column consistent (C06_walk_consistent), and the progress argument the parser's loops rely on (C06_progress: "
                      "'every iteration stops or strictly advances' => termination within len+1 iterations). MONITORED on explored inputs: the "
                      "real parser neither panics nor exceeds 0.5 s, error positions lie inside the input, and for every file that parse + generate "
                      "+ gofmt accept EVERY parser.Expression in the tree (found by reflection, so new node kinds are covered) and every "
                      "(Name, NameRange) pair is faithful: in bounds, ordered, line/col = PositionAt(index), source text at the range start begins "
                      "with the recorded text, name ranges cover exactly the name (Lean predicate rangeFaithful on the real tree).",
        "level_note": "Totality of ~3000 lines of parser combinators on go/parser is NOT proved (no faithful Lean model of reasonable size): "
                      "panics/hangs are searched for by structure-aware mutation (truncations, token insertion/deletion/duplication, byte flips, "
                      "CRLF, multi-byte, random bytes) of repo templates, hand-written seeds and grammar-generated templates. a-h/parse's "
                      "PositionAt is modelled (tied by an exhaustive run over {a, LF, e-acute}^<=5 at every index).",
        "rule": "PositionAt: exhaustive over {a, LF, e-acute} to 5 symbols x every index. Files: 73 repo templates + 5 seeds + 300 (8000) generated, each "
                "whole, then 4000 (200000) mutations (truncation, token insertion, span deletion/duplication, byte flip, multi-insertion) and "
                "random byte tails. Non-trivial = accepted file with more than two expressions, or any mutated input.",
        "exhaustive": False,
        "proved": ["C06_positionAt", "C06_clamp", "C06_progress", "C06_walk_consistent",
                   "C06_transcription_pinned (T1: control structure and calls of 11 functions of parse.go)"],
        "monitored": ["no panic / no slow parse / error position in bounds on every explored input", "rangeFaithful for every expression and name range of every accepted file",
                      "model positionAt = a-h/parse PositionAt"],
        "partial": ["parser totality is monitored, not proved", "the 'matched => advanced' hypothesis of C06_progress is not instrumented per node parser (timeouts stand in for it)"],
        "trusted_base": ["a-h/parse Input.PositionAt (modelled)", "go/parser, go/scanner"],
        "assumptions": STD_ASSUME,
    },
    "C07": {
        "claimed": True,
        "model_modules": ["TemplVerif.Model.Pos", "TemplVerif.Model.SourceMap"],
        "proof_modules": ["TemplVerif.Proofs.Pos", "TemplVerif.Proofs.Symbols"],
        "level_text": "Lean 4 theorems about the model of parser.SourceMap and generator.RangeWriter position tracking: after Add, every rune-start "
                      "and line-end position of a (valid UTF-8) expression maps to the target position reached by advancing over the same bytes, "
                      "consecutive to consecutive, and back (C07_add); mapped positions hold the same byte (C07_same_byte); a later expression "
                      "with different source positions does not overwrite earlier mappings (C07_no_clobber); every symbol range recorded by "
                      "AddSymbolRange is found again in both directions for any number of top-level nodes with pairwise different starts, and "
                      "nothing else is found (C07_symbols_found, C07_symbols_back, C07_symbols_sound). The model is compared with the real "
                      "SourceMap.Add (random add sequences, full table dumps) and RangeWriter.Write; and on real templates (repo, seeds with "
                      "multi-byte text / multi-line expressions / CRLF / expressions before the package clause, grammar-generated) EVERY "
                      "parser.Expression of the tree (reflection) is checked against the real generated file and real source map with the Lean "
                      "predicate exprMapped (covered; same byte; consecutive; round trip; target line/col = PositionAt of target index), under five "
                      "sets of generator options; every top-level template, css, script and Go block must have a symbol range that is in bounds, "
                      "position-consistent, maps back, and whose generated text is the declaration (`func <signature>` ... `}` / the Go code).",
        "level_note": "'Every expression is covered' (C07_cover) and that the generator passes the right ranges to AddSymbolRange are established "
                      "per explored template by the correspondence run (there is no byte-exact model of the generator's text). Byte positions are rune-start positions. "
                      "An expression value ending in LF shares its end position with the next expression (belongs to the latter).",
        "rule": "400 (20000) random Add sequences over 11 values incl. multi-line, multi-byte, CRLF; RangeWriter write sequences; 73 repo templates + "
                "5 seeds + 250 (6000) generated templates, every expression and every top-level declaration of each, generator option sets "
                "rotating; 200 (10000) random AddSymbolRange sequences on a 3x4 grid of starts (several symbols per line). Non-trivial = more than two live expressions / multi-line or multi-byte value.",
        "exhaustive": False,
        "proved": ["C07_add", "C07_same_byte", "C07_no_clobber", "C07_symbols_found", "C07_symbols_back", "C07_symbols_sound",
                   "C07_transcription_pinned (T1: control structure and calls of 13 functions of rangewriter.go, sourcemap.go)"],
        "monitored": ["language server sessions (proxy.Server): after every edit, hover requests are translated with the source map of the current text (110 positions per step, 6 steps)", "model = real SourceMap.Add tables", "model advance = real RangeWriter ranges", "exprMapped for every expression of every explored template",
                      "model = real AddSymbolRange lookups", "symbol range of every top-level declaration of every explored template encloses the generated declaration"],
        "partial": ["that every expression is added and every declaration's range is passed to AddSymbolRange rests on the explored templates (there is no byte-exact model of the generator's text)"],
        "trusted_base": ["Go map assignment = later entry wins", "utf8 range iteration modelled by Utf8.decodeRune"],
        "assumptions": STD_ASSUME,
    },
    "C08": {
        "claimed": True,
        "model_modules": ["TemplVerif.Model.Ast", "TemplVerif.Model.Gen", "TemplVerif.Model.Norm", "TemplVerif.Model.Printer",
                          "TemplVerif.Model.Reparse", "TemplVerif.Model.Spaced"],
        "proof_modules": ["TemplVerif.Proofs.Norm", "TemplVerif.Proofs.Spaced"],
        "thorough_shards": 14,
        "level_text": "PROVED in Lean 4, for EVERY pair of template bodies: C08_same_class_same_program - if two trees have the same layout-class "
                      "representative (Norm.body: layout flags dropped; trailing spaces kept exactly where they are rendered and vertical = "
                      "horizontal; whitespace nodes dropped where the generator drops them; comment text dropped; everything else - names, attribute "
                      "order and values, text, expression texts, structure - kept) the generator emits the SAME statements for them, hence "
                      "(C08_same_class_same_rendering, with C02) they write the same bytes, return the same error and evaluate the same expressions "
                      "for all values; C08_norm_projection. On the printer fragment of C09 the chain is closed: C08_fragment_class_kept / "
                      "C08_fragment_same_program - EVERY parser-well-formed fragment tree whose source already has white space wherever the "
                      "printer breaks a line next to inline content (Spaced.body; its negation is exactly where the known finding lives) is "
                      "re-parsed after formatting into a tree of the same class, hence the same program. CHECKED on every run (outside the "
                      "fragment there is no model of the printer and of the parser): for every accepted input x, fmt(x) is accepted, the REAL parser's trees of x and fmt(x) are in the same layout "
                      "class template by template (expression texts compared modulo blanks), and the REAL generated code of both, after masking "
                      "positions and gofmt, is identical; an input where the code differs is a violation (with the input as replay), and a pair "
                      "in the same class whose real code differs breaks the correspondence of the theorem's model.",
        "level_note": "Partial: that `templ fmt` never leaves the layout class is established per input by the correspondence run, not for all inputs; "
                      "Go-level equivalence of expression texts that differ only in blanks is the Go language's (trusted).",
        "rule": "all .templ files of the repository + 17 seed bodies (x LF/CRLF) + 2500 (40000) grammar-generated files in many spellings. "
                "Non-trivial = the file is accepted by parse + generate + gofmt.",
        "exhaustive": False,
        "proved": ["C08_same_class_same_program", "C08_same_class_same_rendering", "C08_norm_projection", "C08_fragment_class_kept",
                   "C08_fragment_same_program",
                   "C08_transcription_pinned (T1: control structure and calls of 30 functions of types.go)"],
        "monitored": ["after templ fmt <file> every import the generated code uses is still declared (named imports of templ included)", "fmt(x) accepted", "generated code of x and fmt(x) identical modulo positions/gofmt", "layout class kept, template by template",
                      "same class => same real code (model correspondence)",
                      "fragment + parser-well-formed + spaced => the real formatter keeps the class"],
        "partial": ["class preservation by the real formatter is checked per input, not proved"],
        "trusted_base": ["go/format", "Go's insensitivity to blanks inside an expression"],
        "assumptions": STD_ASSUME,
    },
    "C09": {
        "claimed": True,
        "model_modules": ["TemplVerif.Model.Ast", "TemplVerif.Model.Printer", "TemplVerif.Model.Reparse"],
        "proof_modules": ["TemplVerif.Proofs.Printer"],
        "thorough_shards": 14,
        "level_text": "PROVED in Lean 4 for the modelled fragment (every node and attribute kind except script/raw elements and {{ }} blocks; Go "
                      "expressions that are single gofmt-stable lines without comments; constant attribute values that need no re-escaping): "
                      "C09_print_reparse - for EVERY tree of the fragment that satisfies the invariants of parser-built trees (wfNodes), printing "
                      "the tree the parser builds from the printer's output prints the same bytes, i.e. fmt(fmt x) = fmt x; C09_wf_reparse - "
                      "the re-parsed tree satisfies the invariants again; C09_stable. Printer.body transcribes writeNodes / Element.Write / the "
                      "other Write methods; Reparse.body is parse after print as a function of the tree (flags recomputed from where the printer "
                      "broke lines, trailing spaces from the separators it wrote, whitespace nodes re-placed). CHECKED on every run: on the REAL "
                      "parser's tree of every template in the fragment, Printer.body = the text the REAL formatter wrote (byte for byte), "
                      "Reparse.body = the REAL parser's tree of the formatted text (modulo whitespace-node characters), the tree satisfies "
                      "wfNodes, and print(reparse t) = print t; and on EVERY accepted input, in or outside the fragment, real fmt(fmt x) = fmt x.",
        "level_note": "Partial: outside the fragment (script/style elements, {{ }} blocks, multi-line or commented Go expressions, attribute values "
                      "with character references) idempotence is checked on the implementation only; gofmt is an oracle; file-level nodes "
                      "(package, imports, css/script templates, Go code between templates) are covered by the implementation-level check only.",
        "rule": "all .templ files of the repository + 19 seed bodies (x LF/CRLF) + 2500 (40000) grammar-generated files, half of them restricted "
                "to the printer fragment. Non-trivial = the file is accepted by parse + generate + gofmt (fmt) / at least one template of the file is in the fragment (prt).",
        "exhaustive": False,
        "proved": ["C09_print_reparse", "C09_wf_reparse", "C09_stable",
                   "C09_transcription_pinned (T1: control structure and calls of 30 functions of types.go)"],
        "monitored": ["templ fmt <file> run twice on files whose imports need tidying: the second run changes nothing", "real fmt(fmt x) = fmt x on every accepted input", "Printer.body = real formatter output", "Reparse.body = real parser on formatted text",
                      "wfNodes on every parsed tree", "print(reparse t) = print t on every parsed tree of the fragment"],
        "partial": ["constructs outside the fragment: implementation-level check only"],
        "trusted_base": ["go/format (oracle)"],
        "assumptions": STD_ASSUME,
    },
    "C11": {
        "claimed": True,
        "race_build": True,
        "model_modules": ["TemplVerif.Model.Handler"],
        "proof_modules": [],
        "level_text": "Lean 4 theorems about the model of ComponentHandler over a model of net/http's ResponseWriter: for every configuration and "
                      "every render outcome (any bytes written, then success or failure) the buffered handler's response is either the complete "
                      "document with the configured status/content type, or the error response, which is a function of the configuration alone "
                      "(C11_main, C11_success, C11_failure, C11_default_error); the streamed contrast is stated. Statement-order facts of "
                      "ServeHTTPBuffered (writer untouched before Render; error branch guarded by `err != nil`; what the error branch does with "
                      "the writer; the message constant) are regenerated from handler.go and pinned (C11_wiring_pinned). The model is compared with "
                      "the real handler on httptest recorders over statuses x content types x 7 error-handler behaviours x buffered/streamed x "
                      "chunk patterns (incl. > 4 KB and > pool buffer) x 7 error kinds, and k chunks-then-fail for every k <= 40 (400 thorough).",
        "level_note": "Trusted: net/http ResponseWriter semantics as modelled (first WriteHeader/Write freezes headers; Write implies 200; "
                      "http.Error); the bytes.Buffer pool; error kinds are irrelevant to the model (any non-nil error takes the error branch), "
                      "which T1 pins and T2 samples with context.Canceled, wrapped, DeadlineExceeded, templ.Error, io errors.",
        "rule": "4 statuses x 2 content types x 7 error handlers x {buffered, streamed} x 8 chunk patterns x (success + error kinds); k = 0..40 "
                "chunks then fail under 3 configurations. Non-trivial = the component wrote something and then failed.",
        "exhaustive": True,
        "proved": ["C11_main", "C11_success", "C11_failure", "C11_default_error", "C11_stream_contrast", "C11_wiring_pinned (T1)",
                   "C11_transcription_pinned (T1: control structure and calls of handler.go:ComponentHandler.ServeHTTP, handler.go:ComponentHandler.ServeHTTPBuffered)"],
        "monitored": ["the concurrent phase shared with C14 (overlapping requests after failed buffered requests)", "model = real templ.Handler on httptest.ResponseRecorder: status, Content-Type, body"],
        "partial": [],
        "trusted_base": ["net/http ResponseWriter / http.Error semantics", "httptest.ResponseRecorder"],
        "assumptions": STD_ASSUME,
    },
    "C18": {
        "claimed": True,
        "model_modules": ["TemplVerif.Model.Frame", "TemplVerif.Model.Mux"],
        "proof_modules": ["TemplVerif.Proofs.Frame", "TemplVerif.Proofs.Mux"],
        "level_text": "Lean 4 theorems: every sequence of frames written by the model of stream.Write is read back by the model of stream.Read "
                      "as the same sequence of bodies for every chunking of the byte stream (C18_roundtrip, via decimal/ParseInt round trip and "
                      "the header loop), the length header counts bytes, the reader is total (C18_total); and for the call/response transition "
                      "system of conn.go, for EVERY schedule of calls, responses in any order / late / never / for unknown ids, cancellations "
                      "and select choices: each completed call holds the response carrying its id or its own cancellation (C18_match), ids are "
                      "never reused and nothing stays pending (C18_ids), the read loop never blocks - since the repair of the blocking send for "
                      "every behaviour of the peer, duplicated responses included (C18_no_block_any; C18_no_block is the earlier, conditional "
                      "statement). Concurrent senders: any number of senders that go through conn.write (mutex around the two transport writes of "
                      "a frame), interleaved at the granularity of single writes under EVERY schedule, leave a stream that is their frames in "
                      "some order - a permutation, nothing cut - and that reads back whole (C18_frames_atomic, C18_concurrent_roundtrip; "
                      "C18_unlocked_counterexample shows a sender that bypasses the mutex; C18_write_pinned is the T1 fact that only `write` "
                      "touches the stream, between Lock and Unlock, and that Call, Notify and the replier send through it). The models are compared on every run with the real NewStream (real Write framing; read-back under many "
                      "chunkings incl. every split point of short streams; 33 malformed/truncated frames + random header soup with error kinds) "
                      "and the real NewConn against a scripted peer over net.Pipe (out-of-order, late, never, unknown-id, cancel-racing-reply), "
                      "whose observed outcomes are replayed on the Rpc model.",
        "level_note": "Partial: message bodies are opaque bytes in the theorems (encoding/json is outside); bufio.Reader's chunk-independence is "
                      "trusted and exercised by T2; the Rpc theorems cover all interleavings of the modelled atomic steps (channel of capacity 1, "
                      "pending map under its mutex, frame writes under writeMu) - real scheduling is sampled, not forced (the mux run uses a "
                      "transport that pauses after every header).",
        "rule": "round trips: random sequences of 1-5 calls/notifications/responses (numeric and string ids, multi-byte and 5 KB payloads) written by "
                "the real stream, read back whole and in chunks of 1,2,3,5,17,64,4095,4096,4097 and random sizes, and at EVERY two-chunk split of "
                "streams < 400 bytes; malformed: 33 hand-written header defects x 3 chunkings + random header soup; rpc: rounds of 1-6 concurrent "
                "callers x 6 peer behaviours (answer, late, never, cancel racing the reply, unknown id first, six copies in one piece); mux: 3 (40) "
                "rounds of one connection answering 20-40 incoming calls while 3 goroutines send 15 notifications each. "
                "Non-trivial = non-empty stream / more than one caller.",
        "exhaustive": False,
        "proved": ["C18_frame_roundtrip", "C18_roundtrip", "C18_length_counts_bytes", "C18_total", "C18_match", "C18_ids", "C18_no_block", "C18_no_block_any",
                   "C18_frames_atomic", "C18_concurrent_roundtrip", "C18_write_pinned (T1)",
                   "C18_transcription_pinned (T1: control structure and calls of conn.go:conn.Call, conn.go:conn.Notify, conn.go:conn.replier, conn.go:conn.run, conn.go:conn.write, stream.go:stream.Read, stream.go:stream.Write)"],
        "monitored": ["a frame with anything but white space after the message yields an error; white space is accepted", "model framing = real stream.Write bytes", "model reader = real stream.Read (frames and error kinds)", "real NewConn outcomes replay on the Rpc model",
                      "a connection used in both roles at once writes whole frames only (mux)", "no call stays stuck beyond its own deadline"],
        "partial": ["JSON layer; real scheduling"],
        "trusted_base": ["bufio.Reader", "encoding/json", "net.Pipe"],
        "assumptions": STD_ASSUME,
    },
    "C19": {
        "claimed": True,
        "model_modules": ["TemplVerif.Model.Sse"],
        "proof_modules": ["TemplVerif.Proofs.Sse"],
        "level_text": "Lean 4 theorems about a transition-system model of sse.Handler (subscribe, broadcast, per-client delivery goroutines, "
                      "cancel, exit): for EVERY schedule no step panics and the broadcaster is never blocked (C19_safe), every event broadcast "
                      "while a client was registered is received by it or still pending unless the client was cancelled (C19_delivery), and "
                      "delivery goroutines of departed clients can always finish (C19_no_leak). The model's two wiring parameters (handler closes "
                      "the channel on exit; delivery selects on done) are regenerated from sse/server.go on every run and pinned (decide). The "
                      "real handler is driven through the same schedules with FORCED interleavings (verif-tag yield hooks) - every schedule up to "
                      "length 6 (8 thorough) over 2 clients and 2 broadcasts, plus random longer ones - and its panics, stuck goroutines and "
                      "per-client event logs are compared with the model.",
        "level_note": "Partial: the theorems quantify over all interleavings of the MODELLED atomic steps; that the code's steps are these (lock "
                      "scopes, unbuffered channel semantics, select fairness) is tied by hook-forced schedules, not proved; eventual delivery needs "
                      "scheduler fairness; slow readers are modelled as delayed deliver steps; the HTTP layer under ServeHTTP is a recording ResponseWriter.",
        "rule": "all schedules of enabled actions (subscribe, broadcast, deliver, drop, cancel, exit) of length <= 6 (quick) / 8 (thorough) with <= 2 "
                "clients and <= 2 broadcasts, each completed by settle + snapshot + drain; hand-written churn schedules incl. the witness of the "
                "repaired defect; random schedules with up to 5 clients and 20 steps. Non-trivial = contains a broadcast and a cancel.",
        "exhaustive": True,
        "proved": ["C19_safe", "C19_delivery", "C19_no_leak", "C19_wiring_pinned (T1)", "C19_unrepaired_counterexample",
                   "C19_transcription_pinned (T1: control structure and calls of server.go:Handler.Send, server.go:Handler.ServeHTTP)"],
        "monitored": ["the event stream through proxy.Handler behind a real HTTP server, logger at info and debug level: headers and every event within 2 s", "72 resident clients in the stress child, run under a time-out (a wedged broadcaster is a violation, not a hung check)", "model = real sse.Handler under hook-forced schedules: panic, stuck goroutines, per-client logs"],
        "partial": ["real scheduling / memory model; fairness"],
        "trusted_base": ["Go channel and mutex semantics as modelled", "verif hooks in sse/server.go (yield points only)"],
        "assumptions": STD_ASSUME,
    },
    "C20": {
        "claimed": True,
        "model_modules": ["TemplVerif.Model.Proxy"],
        "proof_modules": [],
        "level_text": "Lean 4 theorems about the model of proxy.modifyResponse: C20_passthrough (skip header, non-HTML, or an encoding other than "
                      "identity/gzip/br => the response is returned unchanged: body bytes, Content-Length, headers), C20_htmx, and C20_html (for "
                      "identity/gzip/br HTML, for EVERY codec satisfying dec(enc x) = x and every HTML rewriter: what the browser decodes is the "
                      "rewritten document, Content-Length = bytes sent, encoding/content-type/CSP headers untouched). The model is compared on every "
                      "run with the REAL proxy end to end (httptest upstream -> proxy.New handler -> client) over documents x encodings x content "
                      "types x CSP shapes x skip/HX-Request, with an independent x/net/html implementation of 'append the script to body' as oracle "
                      "and the model's parseNonce deciding the nonce.",
        "level_note": "Partial by design: 'same document' rests on golang.org/x/net/html (parameter; render-stability law monitored) and on the gzip/"
                      "brotli codecs (parameters with the round-trip law); parseNonce is modelled exactly (strings.Fields with unicode.IsSpace) and "
                      "compared through the nonce the real proxy puts on the script; CSP directive names are matched case-sensitively as in the "
                      "code (observation: browsers match them case-insensitively).",
        "rule": "18 documents (empty ... 300 KB, 3.6 MB in thorough; non-ASCII, existing scripts, no body, framesets, foreign content) x 9 encoding labels "
                "(identity, gzip, br, deflate, zstd, identity-label, GZIP, 'gzip, br', x-gzip) ; 10 content types x 4 encodings; 19 CSP shapes x 2 "
                "encodings; 5 skip-header values x HX-Request x 3 encodings; truncated compressed streams; random fragment documents x random "
                "everything. Non-trivial = anything but an identity-encoded non-HTML pass-through.",
        "exhaustive": False,
        "proved": ["C20_passthrough", "C20_htmx", "C20_html (for all codecs with the round-trip law and all rewriters)",
                   "C20_transcription_pinned (T1: control structure and calls of proxy.go:insertScriptTagIntoBody, proxy.go:Handler.modifyResponse, proxy.go:parseNonce)"],
        "monitored": ["model = real proxy end to end (status, body bytes, decoded body, Content-Length, Content-Encoding, Content-Type)",
                      "x/net/html render stability law", "parseNonce via the nonce attribute of the inserted script"],
        "partial": ["HTML parse/render and compression codecs are parameters, not verified"],
        "trusted_base": ["golang.org/x/net/html parse/render", "compress/gzip, andybalholm/brotli", "net/http reverse proxy plumbing"],
        "assumptions": STD_ASSUME,
    },
    "C05": {
        "claimed": True,
        "model_modules": ["TemplVerif.Model.Css", "TemplVerif.Spec.CssScan"],
        "proof_modules": ["TemplVerif.Proofs.Css"],
        "search_rounds": 1,
        "thorough_shards": 12,
        "level_text": "Lean 4 theorem C05_main proves for EVERY (property, value) pair of byte strings, and for every behaviour of net/url.Parse "
                      "(a parameter), that the pair returned by the model of safehtml.SanitizeCSS is safely ONE declaration under a CSS Syntax 3 "
                      "declaration-scanner specification: it ends exactly at the ';' written after it whatever follows, calls no function but "
                      "url() with no/http/https/mailto scheme, and contains no '<'. The sanitiser map, url forms, regex sources, innocuous "
                      "constants and rejected-character sets are regenerated from safehtml/style.go on every run and pinned by decide. The model "
                      "is compared with the real SanitizeCSS / templ.SanitizeCSS / style-attribute map and KV forms / rendered css components on "
                      "every run, and the Lean scanner predicate is evaluated on the real outputs.",
        "level_note": "Trusted: Lean kernel; the hand-written CSS declaration scanner (no CSS engine offline); regexp recognisers transcribed by "
                      "hand (sources pinned, behaviour tied by T2); net/url.Parse is a parameter (only getScheme, the CTL check and the "
                      "first-segment-colon rule are modelled; the law 'Parse ok => modelled checks pass' is monitored); strings.TrimSpace "
                      "modelled with Go's rune decoding. Plain-string style attributes and SafeCSS values are outside the statement.",
        "rule": "6 property classes (background-image, font-family, display, listed regular, unlisted, invalid name) x every value over the "
                "22-symbol CSS alphabet (; : { } ( ) \" ' \\ / * < > , @ a u r l - space LF) to length 3 (quick) / 4 (thorough) x 13 property "
                "spellings x 110 value shapes (url() x quote kinds x schemes, quoted family lists, comment fragments, escapes) + random "
                "compositions; css components rendered through the real generator. Non-trivial = value kept by the sanitiser and not purely alphabetic.",
        "exhaustive": True,
        "proved": ["C05_main (DeclSafe of the sanitised pair, all inputs, all url.Parse behaviours)", "C05_name", "C05_styleAttr", "T1 pins by decide",
                   "C05_transcription_pinned (T1: control structure and calls of runtime.go:SanitizeCSS)"],
        "monitored": ["style attribute of a generated template as the HTML tokenizer decodes it = the sanitised declaration (known finding: escaped twice)", "the pair in ten other container forms (named maps, slices, funcs, pointers): sanitised or refused", "model = real safehtml.SanitizeCSS, templ.SanitizeCSS, SanitizeStyleAttributeValues (map, KV)", "scanner predicate on real outputs incl. rendered <style> text"],
        "partial": [],
        "trusted_base": ["CSS Syntax 3 declaration scanner spec (Spec/CssScan.lean)", "net/url.Parse as a parameter"],
        "assumptions": STD_ASSUME,
    },
    "C03": {
        "claimed": True,
        "model_modules": ["TemplVerif.Model.Js", "TemplVerif.Spec.JsLex"],
        "proof_modules": ["TemplVerif.Proofs.Js"],
        "thorough_shards": 8,
        "level_text": "Lean 4 theorems prove for EVERY byte string / JSON value: text produced by the in-literal escaper, followed by the closing "
                      "quote, lexes (ECMAScript string / template lexer specification) as ONE literal whose value is the original string, in "
                      "'...', \"...\" and `...` alike (C03_inliteral), contains no '<' (C03_inliteral_html); JSON strings are single JS literals "
                      "with the original value and no < > & (C03_bare_string, C03_json_html_safe); the on* attribute form has no double quote and "
                      "HTML-decodes to the inline call (C03_attr); rejected function names are replaced (C03_fname). The two replacement tables are "
                      "regenerated from scriptelement.go on every run and checked entry by entry by decide (C03_table_covers, C03_table_entries_ok). "
                      "Models are compared with the real ScriptContent*/json.Marshal/SafeScript* on every run and the Lean lexer predicate is "
                      "evaluated on real renders of all 11 JavaScript positions through the real generator.",
        "level_note": "Trusted: Lean kernel; the hand-written ECMAScript string/template lexer and HTML script-data condition (no JS engine offline); "
                      "encoding/json's string encoder modelled (tied by T2, 2.3e4 strings quick); numbers are opaque text; a browser may merge "
                      "adjacent invalid UTF-8 bytes into one U+FFFD where Go yields one per byte; the parser's quote tracker "
                      "(which position a {{ }} is in) is not modelled; it is compared on every run with the specification's source lexer "
                      "(quotes, escapes, line continuations, comments, regular-expression literals, ${ } substitutions, HTML-like comments) on "
                      "generated scripts: scripts with the last three constructs are where it errs (known finding).",
        "rule": "exhaustive strings over 27 symbols (' \" ` \\ / < > & $ { } + - ! LF CR NUL U+2028 e-acute 0xFF a s c r i p t) to length 3 "
                "(quick) / 4 (thorough) through the in-literal escaper and json.Marshal; 60 adversarial strings + all strings to length 2/3 over "
                "14 symbols through 11 rendered positions (bare, three literal kinds, on* call, inline call, JSFuncCall both forms, function-name "
                "position, JSON script); random nested values through scriptContent and SafeScript*. Non-trivial = output differs from input.",
        "exhaustive": True,
        "proved": ["C03_inliteral (all three quote kinds, all byte strings)", "C03_bare_string", "C03_json_html_safe", "C03_attr", "C03_fname",
                   "table coverage / entry correctness by decide over the regenerated tables",
                   "C03_transcription_pinned (T1: control structure and calls of scripttemplate.go:jsonEncodeParam, scriptelement.go:scriptContent)"],
        "monitored": ["a dollar sign written directly before the expression inside a template literal (known finding backtick-dollar)", "the same expression text in several positions of one script element = the concatenation of the single-position renders", "models = real runtime.ScriptContent*, json.Marshal, templ.SafeScript*", "lexer predicate on real rendered documents for 11 positions",
                      "parser's in-literal flag of every {{ }} = the JS source lexer's, on generated scripts"],
        "partial": ["the parser's quote tracker is checked against the JS source lexer per input, not proved; known finding for regex literals / ${ } / <!--",
                    "full JSON value round trip (Json.parse) is stated for strings only; containers are covered by the < > & freedom theorem"],
        "trusted_base": ["ECMAScript string/template lexer spec (Spec/JsLex.lean)", "encoding/json string encoder with escapeHTML"],
        "assumptions": STD_ASSUME,
    },
    "C01": {
        "claimed": True,
        "model_modules": ["TemplVerif.Model.Html", "TemplVerif.Model.Attrs", "TemplVerif.Model.Sinks", "TemplVerif.Spec.HtmlTok",
                          "TemplVerif.Model.Expect", "TemplVerif.Model.Denote"],
        "proof_modules": ["TemplVerif.Proofs.Html", "TemplVerif.Proofs.ComposeErr", "TemplVerif.Proofs.Compose"],
        "thorough_shards": 8,
        "level_text": "Lean 4 theorems prove, for EVERY byte string: the escaper's output has no < > \" ' and decodes back to the input "
                      "(C01_escape_noStructural, C01_decode_escape[_append]); in the WHATWG tokenizer specification an escaped string placed "
                      "in the data state or in a double-quoted attribute value is consumed entirely in that state (C01_hole_data, C01_hole_attr, "
                      "C01_text_sink); spread-attribute string forms and the JSON script element's id/type/nonce become exactly the intended "
                      "attributes (C01_spread_value, C01_jsonscript_open); and every dynamic write site the generator can emit (list "
                      "regenerated from generator.go each run) goes through templ.EscapeString (C01_sinks_wired, decide). COMPOSITION "
                      "(C01_compose, C01_compose_hoistAll): for every template body of the markup fragment (elements other than raw-text ones; "
                      "constant, boolean, expression, class and conditional attributes; text, string expressions, if / for / switch, Go code and "
                      "comments; arbitrary nesting) and every environment whose rendering does not fail, tokenizing the bytes the template "
                      "denotes (Denote, the C02 semantics the generated code is compared with) gives exactly the author's token stream "
                      "(Expect.tokens: the template's tags and attributes in order, every string verbatim inside its text run or as its "
                      "attribute's whole value) - by mutual structural induction over the tree, unbounded. The models are "
                      "compared with the real EscapeString / RenderAttributes / JSONScript on every run; 24 sink kinds are rendered through "
                      "the real generator+runtime with adversarial strings and the Lean tokenizer predicate (same token stream as the "
                      "author's markup with the value substituted) is evaluated on the real output; the tokenizer spec is cross-checked "
                      "against golang.org/x/net/html on every document.",
        "level_note": "Trusted: Lean kernel; the hand-written tokenizer specification (cross-checked against x/net/html; compared modulo "
                      "CR/NUL input normalisation); html.EscapeString modelled as five byte replacements; decodeRefs covers the five references "
                      "the escaper emits (so the composition theorem's static-text hypothesis textOK - no text stopping inside `&[A-Za-z0-9#]*` - is "
                      "stated for any reference table, and the compose check only runs the Lean tokenizer); the composition theorem is about "
                      "Denote (tied to the compiled code by C02's run and by the compose phase here), and outside the markup fragment (spread "
                      "attributes, script handlers, raw-text elements, component calls, comments) the per-sink theorems apply; "
                      "attribute NAMES from spread maps and text in RAWTEXT elements other than script/style are outside the statement.",
        "rule": "escaper: exhaustive over a 20-symbol alphabet (& < > \" ' / = space NUL CR LF TAB a e-acute 0xFF 0xC3 U+2028 % ; #) to "
                "length 3 (quick) / 5 (thorough); 24 sink kinds (text, attribute, conditional attribute, spread string/*string/KeyValue, class, "
                "style, href/action, textarea/title, JSON script id/type/nonce, script nonce) x 70 adversarial strings x all strings to length "
                "2/3 over 13 symbols x random concatenations; RenderAttributes on random maps of all 8 value kinds; JSONScript opening tags. "
                "Distinct = distinct (op, inputs); non-trivial = value contains a metacharacter, %, NUL or non-ASCII byte.",
        "exhaustive": True,
        "proved": ["escape: no structural bytes, decode . escape = id (all byte strings)", "tokenizer hole lemmas for data and double-quoted attribute value",
                   "spread attribute value / JSON script open tag token shape", "all generator sinks wired through EscapeString (T1, decide)",
                   "composition: tokenize(Denote body env) = Expect.tokens body env for every tree of the markup fragment and every environment (C01_compose)",
                   "static text not stopping inside a character reference decodes independently of what follows (C01_static_text_closed)",
                   "C01_transcription_pinned (T1: control structure and calls of runtime.go:EscapeString, runtime.go:RenderAttributes)"],
        "monitored": ["model = real EscapeString / RenderAttributes / JSONScript header", "token-stream predicate on real rendered output of 24 sink kinds",
                      "Lean tokenizer = x/net/html tokenizer on every rendered document",
                      "composition statement evaluated on the real bytes of compiled generated templates (tokenize(out) = Expect.tokens; Denote.out = out)",
                      "static `&` directly before a string expression (known finding text-after-amp)"],
        "partial": ["composition outside the markup fragment (spread attributes, script handlers, raw-text elements, component calls, HTML comments): per-sink theorems and fixtures only",
                    "composition is proved about Denote; that the compiled code writes Denote's bytes is C02's correspondence, not a theorem"],
        "trusted_base": ["html.EscapeString = byte-level replacer of & < > \" '", "WHATWG tokenizer fragment (Spec/HtmlTok.lean)"],
        "assumptions": STD_ASSUME,
    },
    "C04": {
        "claimed": True,
        "level_text": "Lean 4 theorems (C04_main, C04_else, C04_okPair; kernel-checked, axioms audited) prove for EVERY byte string that the "
                      "model of templ.URL returns its input only when the WHATWG scheme-state specification sees no scheme or an "
                      "allow-listed one, and the failure URL otherwise. The scheme list and failure constant are regenerated from url.go "
                      "on every run (pinned to the statement's list by decide); the model is compared with the real templ.URL on an "
                      "exhaustive adversarial space (6.9e5 strings quick, ~3e7 thorough) and the Lean predicate is evaluated on the real outputs.",
        "level_note": "Trusted: Lean kernel; the hand-written WHATWG scheme specification; Go's strings.EqualFold/IndexRune modelled (simple "
                      "folding of U+017F/U+212A included); control flow of templ.URL transcribed by hand (tied by T2); the href/action typing "
                      "clause is a Go type-checker fact that is observed elsewhere, not proved.",
        "model_modules": ["TemplVerif.Model.Url"],
        "proof_modules": ["TemplVerif.Proofs.Url"],
        "thorough_shards": 12,
        "rule": "exhaustive: every string over the 27-symbol alphabet {j J a h H t T p P s S : / \\ ? # % & ; TAB LF CR space NUL "
                "U+017F e-acute 0xFF} to length 4 (quick) / 5 (thorough; plus a 16-symbol core to length 6); every case mask x "
                "whitespace/control/entity insertion at every position of 12 scheme names x 5 tails; mutations of 50 known XSS vectors; "
                "random strings up to 40 symbols. Distinct = distinct input string; non-trivial = contains ':' (the sanitiser takes its "
                "protocol branch).",
        "exhaustive": True,
        "proved": ["C04_main: sanitize s = s -> browser (WHATWG) scheme is none or allow-listed (or s is the failure URL), for every byte string",
                   "C04_else: any other input is replaced by the failure URL",
                   "C04_schemes_pinned / C04_failedURL_pinned: the tables regenerated from url.go equal the statement's lists",
                   "C04_transcription_pinned (T1: control structure and calls of url.go:URL)"],
        "monitored": ["href / action of a generated template as the HTML tokenizer reads it back = what templ.URL returned (all pairs of adjacent special characters)", "templ.URL from 16 goroutines = templ.URL alone", "href / action supplied through spread attributes (known finding)", "model = real templ.URL on every explored string", "okPair(s, templ.URL(s)) evaluated in Lean on the real outputs"],
        "partial": ["'href/action only through the safe-URL type' is a Go type-checker fact: observed by C02's compiled batches (negative program), not proved"],
        "trusted_base": ["strings.IndexRune/ContainsRune on ASCII = byte search; strings.EqualFold against ASCII literals modelled with simple folding (U+017F, U+212A)",
                         "WHATWG URL scheme-state specification transcribed by hand (Whatwg.scheme)"],
        "assumptions": STD_ASSUME,
    },
    "C17": {
        "claimed": True,
        "level_text": "Lean 4 theorems (C17_main, C17_nil, C17_wf, C17_hist; 56 lemmas, kernel-checked, axioms audited) prove that the "
                      "model of Document.Apply equals the editor's byte splice for every document, every ordered range (clamped) and "
                      "every text, and by induction for every edit history. The model is a function-by-function transcription of "
                      "documentcontents.go and is compared with the real Document.Apply on an exhaustive small-document space plus random "
                      "edit histories on every run; the Lean splice specification is also evaluated on the real outputs.",
        "level_note": "Trusted: Lean kernel; strings.Split/Join modelled as splitLF/joinLF; the hand transcription of Document.* (tied by the "
                      "differential run only: 6.9e4 cases quick, exhaustive over {a,LF}^<=5); positions are byte offsets (as in the code), "
                      "reversed ranges are outside the statement.",
        "model_modules": ["TemplVerif.Model.Doc", "TemplVerif.Model.Docs"],
        "proof_modules": ["TemplVerif.Proofs.Doc", "TemplVerif.Proofs.Docs"],
        "rule": "exhaustive: every document over {a,LF} up to 5 (quick) / 7 (thorough) bytes x every range with "
                "start<=stop whose coordinates run to one past the last line / longest line x 6 replacement texts; "
                "plus random documents up to 200 symbols (multi-byte, tabs) with edit sequences of up to 12 steps, each "
                "step one case. Distinct = distinct (document, range, text); non-trivial = neither a nil-range full "
                "replace nor an empty edit.",
        "exhaustive": True,
        "proved": ["C17_sessions_independent / C17_other_documents_untouched: in any session over any number of open documents (URIs compared byte for byte) the server's copy of a document is what the messages about that document alone produce",
                   "C17_main: Document.Apply = byte splice for every document, ordered range (after clamping) and text",
                   "C17_nil: nil range = full replace", "C17_hist: any change sequence keeps the copy equal to the editor's buffer",
                   "C17_transcription_pinned (T1: control structure and calls of documentcontents.go:Document.Apply, documentcontents.go:DocumentContents.Apply, documentcontents.go:DocumentContents.Delete, documentcontents.go:DocumentContents.Get, documentcontents.go:DocumentContents.Set)"],
        "monitored": ["watched-file notifications (Changed / Created) for open documents with unsaved edits leave the buffer of the editor the truth", "model = real Document.Apply on every explored case", "real output = splice specification"],
        "partial": ["offsets are byte offsets as in the code (LSP UTF-16 units coincide for ASCII)"],
        "trusted_base": ["strings.Split / strings.Join modelled as splitLF / joinLF"],
        "assumptions": STD_ASSUME + ["LSP clients send start <= end (reversed ranges are outside the statement; counted as skipped)"],
    },
}
