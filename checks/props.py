"""Per-property configuration for ./check (what is proved, what is only monitored, trusted base, generation rule)."""

STD_ASSUME = ["the Lean model is tied to /repo by the T1 extractor and the T2 correspondence run of this check; "
              "agreement outside the explored inputs rests on the model being a line-by-line transcription"]

HOOK_COMMITS = []

PROPS = {
    "C04": {
        "model_modules": ["TemplVerif.Model.Url"],
        "proof_modules": ["TemplVerif.Proofs.Url"],
        "thorough_shards": 12,
        "rule": "exhaustive: every string over the 27-symbol alphabet {j J a h H t T p P s S : / \\ ? # % & ; TAB LF CR space NUL "
                "U+017F e-acute 0xFF} to length 4 (quick) / 5 (thorough; plus a 16-symbol core to length 6); every case mask x "
                "whitespace/control/entity insertion at every position of 12 scheme names x 5 tails; mutations of 50 known XSS vectors; "
                "random strings up to 40 symbols. Distinct = distinct input string; non-trivial = contains ':' (the sanitiser takes its "
                "protocol branch).",
        "exhaustive": True,
        "proved": ["C04_main: sanitize s = s -> browser (WHATWG) scheme is none or allow-listed (or s is the failure URL), for every byte string",
                   "C04_else: any other input is replaced by the failure URL",
                   "C04_schemes_pinned / C04_failedURL_pinned: the tables regenerated from url.go equal the statement's lists"],
        "monitored": ["model = real templ.URL on every explored string", "okPair(s, templ.URL(s)) evaluated in Lean on the real outputs"],
        "partial": ["'href/action only through the safe-URL type' is a Go type-checker fact: observed by C02's compiled batches (negative program), not proved"],
        "trusted_base": ["strings.IndexRune/ContainsRune on ASCII = byte search; strings.EqualFold against ASCII literals modelled with simple folding (U+017F, U+212A)",
                         "WHATWG URL scheme-state specification transcribed by hand (Whatwg.scheme)"],
        "assumptions": STD_ASSUME,
    },
    "C17": {
        "claimed": True,
        "level_text": "Lean 4 theorems (C17_main, C17_nil, C17_wf, C17_hist; 56 lemmas, kernel-checked, axioms audited) prove that the "
                      "model of Document.Apply equals the editor's byte splice for every document, every ordered range (clamped) and "
                      "every text, and by induction for every edit history. The model is a function-by-function transcription of "
                      "documentcontents.go and is compared with the real Document.Apply on an exhaustive small-document space plus random "
                      "edit histories on every run; the Lean splice specification is also evaluated on the real outputs.",
        "level_note": "Trusted: Lean kernel; strings.Split/Join modelled as splitLF/joinLF; the hand transcription of Document.* (tied by the "
                      "differential run only: 6.9e4 cases quick, exhaustive over {a,LF}^<=5); positions are byte offsets (as in the code), "
                      "reversed ranges are outside the statement.",
        "model_modules": ["TemplVerif.Model.Doc"],
        "proof_modules": ["TemplVerif.Proofs.Doc"],
        "rule": "exhaustive: every document over {a,LF} up to 5 (quick) / 7 (thorough) bytes x every range with "
                "start<=stop whose coordinates run to one past the last line / longest line x 6 replacement texts; "
                "plus random documents up to 200 symbols (multi-byte, tabs) with edit sequences of up to 12 steps, each "
                "step one case. Distinct = distinct (document, range, text); non-trivial = neither a nil-range full "
                "replace nor an empty edit.",
        "exhaustive": True,
        "proved": ["C17_main: Document.Apply = byte splice for every document, ordered range (after clamping) and text",
                   "C17_nil: nil range = full replace", "C17_hist: any change sequence keeps the copy equal to the editor's buffer"],
        "monitored": ["model = real Document.Apply on every explored case", "real output = splice specification"],
        "partial": ["offsets are byte offsets as in the code (LSP UTF-16 units coincide for ASCII)"],
        "trusted_base": ["strings.Split / strings.Join modelled as splitLF / joinLF"],
        "assumptions": STD_ASSUME + ["LSP clients send start <= end (reversed ranges are outside the statement; counted as skipped)"],
    },
}
