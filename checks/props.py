"""Per-property configuration for ./check (what is proved, what is only monitored, trusted base, generation rule)."""

STD_ASSUME = ["the Lean model is tied to /repo by the T1 extractor and the T2 correspondence run of this check; "
              "agreement outside the explored inputs rests on the model being a line-by-line transcription"]

HOOK_COMMITS = []

PROPS = {
    "C17": {
        "model_modules": ["TemplVerif.Model.Doc"],
        "proof_modules": ["TemplVerif.Proofs.Doc"],
        "rule": "exhaustive: every document over {a,LF} up to 5 (quick) / 7 (thorough) bytes x every range with "
                "start<=stop whose coordinates run to one past the last line / longest line x 6 replacement texts; "
                "plus random documents up to 200 symbols (multi-byte, tabs) with edit sequences of up to 12 steps, each "
                "step one case. Distinct = distinct (document, range, text); non-trivial = neither a nil-range full "
                "replace nor an empty edit.",
        "exhaustive": True,
        "proved": ["C17_main: Document.Apply = byte splice for every document, ordered range (after clamping) and text",
                   "C17_nil: nil range = full replace", "C17_hist: any change sequence keeps the copy equal to the editor's buffer"],
        "monitored": ["model = real Document.Apply on every explored case", "real output = splice specification"],
        "partial": ["offsets are byte offsets as in the code (LSP UTF-16 units coincide for ASCII)"],
        "trusted_base": ["strings.Split / strings.Join modelled as splitLF / joinLF"],
        "assumptions": STD_ASSUME + ["LSP clients send start <= end (reversed ranges are outside the statement; counted as skipped)"],
    },
}
