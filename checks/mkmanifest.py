#!/usr/bin/env python3
"""Regenerates /verif/MANIFEST.json from checks/props.py (run after editing props.py)."""
import json, os, sys
ROOT = os.path.dirname(os.path.dirname(os.path.abspath(__file__)))
sys.path.insert(0, os.path.join(ROOT, "checks"))
from props import PROPS, HOOK_COMMITS

ids = [json.loads(l)["id"] for l in open(os.path.join(ROOT, "properties.jsonl"))]
checks, na = [], []
for pid in ids:
    cfg = PROPS.get(pid)
    if cfg and cfg.get("claimed"):
        checks.append({
            "property_id": pid,
            "quick_cmd": "./check %s quick" % pid,
            "thorough_cmd": "./check %s thorough" % pid,
            "evidence_file": "/verif/evidence/%s.json" % pid,
            "replay_cmd_template": "./check --replay {path}",
            "engine": "lean4-proof+correspondence",
            "level_claimed": {"category": "proof", "text": cfg["level_text"], "design_ref": cfg.get("design_ref", "DESIGN.md §5 " + pid)},
            "level_note": cfg["level_note"],
            "technique": cfg.get("technique", "Lean 4 theorems about an executable model; model tied to /repo by go/ast extraction (T1) and differential correspondence (T2)"),
        })
    else:
        na.append({"property_id": pid, "reason": (cfg or {}).get("na_reason", "check not built yet in this session (work in progress; the design in DESIGN.md §5 applies the proof technique to it)")})
m = {
    "version": 1,
    "setup_cmd": "cd /verif && ./check --setup",
    "hooks": {
        "guard": "verif",
        "enable": "go build -tags verif (the harness module /verif/harness replaces github.com/a-h/templ with /repo and is always built with -tags verif)",
        "baseline_off_cmd": "cd /repo && go test -vet=off -count=1 ./...",
        "source_commits": HOOK_COMMITS,
        "add_only": True,
    },
    "engines": [
        {"name": "lean4-proof+correspondence", "path": "/verif/lean", "serves_properties": [c["property_id"] for c in checks],
         "kind_free_text": "Lean 4.33 lake project (models, theorems, compiled model driver tvdriver) + Go extractor /verif/extract regenerating lean/TemplVerif/Generated + Go harness /verif/harness running the real code; orchestrated by /verif/check"},
    ],
    "checks": checks,
    "not_applicable": na,
    "notes": "Every check: regenerate Generated/*.lean from /repo, lake build the property's theorems + axiom audit, go build the harness against /repo with -tags verif, run implementation and Lean model on the same cases, evaluate the Lean property predicate on the implementation's outputs. See DESIGN.md.",
}
json.dump(m, open(os.path.join(ROOT, "MANIFEST.json"), "w"), indent=1)
print("claimed:", [c["property_id"] for c in checks], "not_applicable:", [n["property_id"] for n in na])
