#!/usr/bin/env python3
"""Prints the generated parts of DESIGN.md: the per-property 'as built' section (from checks/props.py) and the
seeded-changes table (from seeded/*/meta.json)."""
import json, os, sys, glob, re, textwrap
sys.path.insert(0, os.path.join(os.path.dirname(__file__), "..", "checks"))
import props
titles = {}
for l in open(os.path.join(os.path.dirname(__file__), "..", "properties.jsonl")):
    d = json.loads(l); titles[d["id"]] = d["title"]
def wrap(s, ind=""):
    return "\n".join(textwrap.wrap(s, 100, initial_indent=ind, subsequent_indent=ind))
which = sys.argv[1]
if which == "props":
    for pid in sorted(props.PROPS):
        c = props.PROPS[pid]
        print(f"### {pid} — {titles[pid]}\n")
        print(wrap(c.get("level_text", "")) + "\n")
        if c.get("level_note"):
            print(wrap("*Limits.* " + c["level_note"]) + "\n")
        print(wrap("*Models.* " + ", ".join(m.replace("TemplVerif.", "") for m in c.get("model_modules", [])) +
                   (" — *proof modules:* " + ", ".join(m.replace("TemplVerif.", "") for m in c.get("proof_modules", [])) if c.get("proof_modules") else "")) + "\n")
        print(wrap("*Inputs of the correspondence run.* " + c.get("rule", "")) + "\n")
        if c.get("monitored"):
            print(wrap("*Monitored on every case.* " + "; ".join(c["monitored"])) + "\n")
elif which == "seeds":
    print("| seeded change | what it does (one line) | needs to manifest | caught by |")
    print("|---|---|---|---|")
    for d in sorted(glob.glob(os.path.join(os.path.dirname(__file__), "..", "seeded", "*"))):
        m = json.load(open(os.path.join(d, "meta.json")))
        sid = os.path.basename(d)
        one = lambda s, n: re.sub(r"\s+", " ", s).strip()[:n].replace("|", "/")
        det = m.get("detected", {})
        print(f"| {sid} | {one(m.get('summary',''), 170)} | {one(m.get('needs_to_manifest',''), 150)} | {one(det.get('by',''), 170)} |")
