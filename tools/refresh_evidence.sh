#!/bin/sh
# Re-runs every claimed check (quick tier) on /repo's unchanged tree so that the committed evidence files are from clean runs.
cd /verif
if ! git -C /repo diff --quiet; then echo "/repo has uncommitted changes; refusing"; exit 2; fi
fail=0
for p in $(python3 -c "import json;print(' '.join(c['property_id'] for c in json.load(open('MANIFEST.json'))['checks']))"); do
  ./check $p quick || fail=1
done
python3-vt - <<'PY'
import json, jsonschema, glob
sch = json.load(open('/root/.vp/EVIDENCE.schema.json'))
m = json.load(open('/verif/MANIFEST.json'))
jsonschema.validate(m, json.load(open('/root/.vp/MANIFEST.schema.json')))
for c in m['checks']:
    ev = json.load(open(c['evidence_file']))
    jsonschema.validate(ev, sch)
    cov = ev['coverage']
    assert cov.get('discharged') == cov['obligations'], (c['property_id'], cov.get('discharged'), cov['obligations'])
    assert ev.get('violations', 0) == 0, c['property_id']
print('manifest and', len(m['checks']), 'evidence files valid')
PY
exit $fail
