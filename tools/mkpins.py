#!/usr/bin/env python3
"""Writes the transcription pins (expected skeleton fingerprints) into lean/TemplVerif/Props/Cnn.lean from the CURRENT
Generated/Skeletons.lean. Run it deliberately: after reading a change of an anchored function and deciding that the
hand-written model still transcribes it. The checks never run it."""
import re, collections, subprocess, sys
ROOT = "/verif/lean/TemplVerif"
# Generated/Skeletons.lean is rewritten by every check run, also by runs against a seeded change: pin only what was
# extracted from a clean /repo, and extract it again now.
if subprocess.run(["git", "-C", "/repo", "status", "--porcelain"], capture_output=True, text=True).stdout.strip():
    sys.exit("mkpins: /repo has uncommitted changes; refusing to pin")
subprocess.run(["/verif/check", "C13", "quick"], capture_output=True, text=True)
src = open(f"{ROOT}/Generated/Skeletons.lean").read()
items = re.findall(r"/-- \[([C\d,]+)\] (\S+) (\S+): (.*?) -/\ndef (skel_\w+) : Nat := (\d+)", src, flags=re.S)
by = collections.defaultdict(list)
for props, file, fn, skel, name, val in items:
    for prop in props.split(","):
        by[prop].append((file, fn, name, val))
for prop, lst in sorted(by.items()):
    p = f"{ROOT}/Props/{prop}.lean"
    s = open(p).read()
    conj = " ∧\n    ".join(f"Generated.{name} = {val}" for _, _, name, val in lst)
    listing = "\n".join(f"      {file} {fn}" for file, fn, _, _ in lst)
    block = (f"-- BEGIN transcription pins (written by tools/mkpins.py)\n"
             f"/-- T1, transcription pins: the control structure and calls (extract/skeleton.go) of the functions whose models\n"
             f"    were written by hand are the ones the models were transcribed from:\n{listing}\n"
             f"    A change of what one of them calls or how it branches breaks this theorem; the check then searches for a\n"
             f"    failing input and reports either that or `no-failing-input-found`. -/\n"
             f"theorem {prop}_transcription_pinned :\n    {conj} := by decide\n"
             f"-- END transcription pins\n")
    if "-- BEGIN transcription pins" in s:
        s = re.sub(r"-- BEGIN transcription pins.*?-- END transcription pins\n", lambda m: block, s, flags=re.S)
    else:
        end = f"\nend TemplVerif.Props.{prop}"
        assert end in s, prop
        s = s.replace(end, "\n" + block + end, 1)
        if "import TemplVerif.Generated.Skeletons" not in s:
            s = "import TemplVerif.Generated.Skeletons\n" + s
    open(p, "w").write(s)
    print(prop, len(lst), "pins")
