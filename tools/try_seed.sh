#!/bin/sh
# usage: tools/try_seed.sh <seed dir containing patch.diff> <property> [tier]
# Applies a seeded change to /repo, runs the check, and ALWAYS reverts /repo's working tree.
# The property's evidence file is saved and restored: evidence committed in /verif must come from the unchanged tree.
set -u
d="$1"; p="$2"; t="${3:-quick}"
if ! git -C /repo diff --quiet; then echo "/repo has uncommitted changes; refusing"; exit 2; fi
git -C /repo apply "$d/patch.diff" || { echo "patch does not apply"; exit 2; }
cp /verif/evidence/$p.json /tmp/evidence-$p.bak 2>/dev/null
cd /verif && ./check "$p" "$t"; rc=$?
git -C /repo checkout -- . && git -C /repo clean -fdq
mkdir -p /tmp/seedreplay && rm -f /tmp/seedreplay/$p-* && mv /verif/evidence/replay/$p-*.json /tmp/seedreplay/ 2>/dev/null
[ -f /tmp/evidence-$p.bak ] && mv /tmp/evidence-$p.bak /verif/evidence/$p.json
echo "check exit=$rc (1 = caught); replay files moved to /tmp/seedreplay/"
exit 0
