#!/bin/sh
# usage: tools/try_seed.sh <seed dir containing patch.diff> <property> [tier]
# Applies a seeded change to /repo, runs the check, and ALWAYS reverts /repo's working tree.
set -u
d="$1"; p="$2"; t="${3:-quick}"
if ! git -C /repo diff --quiet; then echo "/repo has uncommitted changes; refusing"; exit 2; fi
git -C /repo apply "$d/patch.diff" || { echo "patch does not apply"; exit 2; }
cd /verif && ./check "$p" "$t"; rc=$?
git -C /repo checkout -- . && git -C /repo clean -fdq
echo "check exit=$rc (1 = caught)"
exit 0
