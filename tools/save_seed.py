#!/usr/bin/env python3
"""usage: tools/save_seed.py <seed dir under /tmp/seeded> <confirm line> <caught: yes/no/pending> <by what>
Copies a confirmed seeded change into /verif/seeded/<id>/ (patch.diff, demonstration, meta.json)."""
import json, os, shutil, sys
src, confirm, caught, by = sys.argv[1], sys.argv[2], sys.argv[3], sys.argv[4]
sid = os.path.basename(src.rstrip("/"))
dst = os.path.join("/verif/seeded", sid)
if os.path.exists(dst):
    shutil.rmtree(dst)
shutil.copytree(src, dst, ignore=shutil.ignore_patterns("confirm.log", "*.exe", "templ", "go.sum"))
meta = json.load(open(os.path.join(src, "meta.json")))
meta["confirmed_by_builder"] = {
    "how": "tools/confirm_seed.sh: scratch worktree of /repo HEAD; git apply; go build ./...; full suite compared with the unchanged tree; demo run on both",
    "result": confirm,
}
meta["detected"] = {"caught": caught, "by": by}
json.dump(meta, open(os.path.join(dst, "meta.json"), "w"), indent=1)
print("saved", dst)
