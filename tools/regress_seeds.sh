#!/bin/sh
# Re-runs every saved seeded change against the current checks (quick tier) and prints one line per change.
cd /verif
for d in seeded/*/; do
  id=$(basename $d); p=${id%-*}
  if ! git -C /repo apply --check /verif/$d/patch.diff 2>/dev/null; then echo "$id NOAPPLY"; continue; fi
  out=$(timeout 1200 tools/try_seed.sh /verif/$d $p quick 2>&1 | tail -2 | head -1)
  git -C /repo checkout -- . 2>/dev/null; git -C /repo clean -fdq 2>/dev/null
  case "$out" in *VIOLATION*) echo "$id CAUGHT $(echo $out | cut -c1-90)";; *) echo "$id MISSED $(echo $out | cut -c1-90)";; esac
done
