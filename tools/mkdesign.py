#!/usr/bin/env python3
"""Assembles DESIGN.md from docs/design_head.md, the generated per-property section, docs/design_tail.md, the generated
seeded-change table and docs/design_tail2.md."""
import os, subprocess
root = os.path.join(os.path.dirname(os.path.abspath(__file__)), "..")
gen = lambda which: subprocess.run(["python3", os.path.join(root, "tools", "mkdesign_tables.py"), which], capture_output=True, text=True, check=True).stdout
out = open(os.path.join(root, "docs", "design_head.md")).read() + gen("props") + open(os.path.join(root, "docs", "design_tail.md")).read() + \
      gen("seeds") + open(os.path.join(root, "docs", "design_tail2.md")).read()
open(os.path.join(root, "DESIGN.md"), "w").write(out)
print("DESIGN.md", len(out.splitlines()), "lines")
