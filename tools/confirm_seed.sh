#!/bin/bash
# usage: tools/confirm_seed.sh <seed dir>   — confirms a seeded change in a scratch worktree of /repo (HEAD):
#  patch applies; go build ./... ok; full suite result equals the unchanged tree's; demo fails with it and passes without.
set -u
d="$(cd "$1" && pwd)"; id="$(basename "$d")"
export GOFLAGS=-mod=mod GOPROXY=off GOSUMDB=off GOTOOLCHAIN=local
wt="/tmp/confirm/$id"; rm -rf "$wt"; mkdir -p /tmp/confirm
git -C /repo worktree add -q --detach "$wt" HEAD || exit 2
log="$d/confirm.log"; : > "$log"
# the demonstration command from meta.json, normalised: the script applies the patch itself, so a leading
# "git apply ..." is dropped, as is a trailing free-text remark in parentheses
demo="$(python3 -c "
import json,re
s=json.load(open('$d/meta.json'))['demo']
s=re.sub(r'git( -C \\S+)? apply [^&;]*(&&|;)', '', s)
s=re.sub(r'\\s{2,}\\(.*\\)\\s*\$', '', s)
import os
if os.path.exists('$d/demo_override.txt'): s=open('$d/demo_override.txt').read().strip()
s=re.sub(r'(?<![A-Za-z_])TREE(?![A-Za-z_])', '$wt', s)
print(s)")"
run_demo() { # demo fails if its exit status is non-zero or its output has a Go test FAIL line
  out="/tmp/confirm/$id.demo"; ( cd "$d" && sh -c "$demo" ) >"$out" 2>&1; rc=$?
  cat "$out" >>"$log"; if grep -qE '^(FAIL|--- FAIL|exit status [1-9])' "$out"; then rc=1; fi; rm -f "$out"; return $rc; }
# cmd/templ/generatecmd/run (TestGoRun) is timing-sensitive under load: it is taken out of the main listing and run on its own, up to three times
suite() { ( cd "$wt" && go test -vet=off -count=1 ./... 2>&1 | grep -E '^(ok|FAIL|---)' | grep -vE 'generatecmd/run|TestGoRun|^FAIL$' | sed -E 's/\t[0-9.]+s//; s/\(cached\)//' | sort
  r=FAIL; for i in 1 2 3; do if go test -vet=off -count=1 ./cmd/templ/generatecmd/run >/dev/null 2>&1; then r=ok; break; fi; done; echo "$r github.com/a-h/templ/cmd/templ/generatecmd/run (own run)" ) ; }
echo "== demo on unchanged tree" >>"$log"; run_demo; clean_rc=$?
( cd "$wt" && git checkout -q -- . && git clean -fdq )
suite > "/tmp/confirm/$id.base"
if ! git -C "$wt" apply "$d/patch.diff" 2>>"$log"; then echo "$id: PATCH-DOES-NOT-APPLY"; git -C /repo worktree remove --force "$wt"; exit 1; fi
( cd "$wt" && go build ./... ) >>"$log" 2>&1; build_rc=$?
suite > "/tmp/confirm/$id.mut"
if diff -q "/tmp/confirm/$id.base" "/tmp/confirm/$id.mut" >/dev/null; then suite_same=yes; else suite_same=NO; diff "/tmp/confirm/$id.base" "/tmp/confirm/$id.mut" >>"$log"; fi
echo "== demo on changed tree" >>"$log"; run_demo; mut_rc=$?
echo "$id: applies=yes build_rc=$build_rc suite_same_as_unchanged=$suite_same demo_unchanged_rc=$clean_rc demo_changed_rc=$mut_rc"
git -C /repo worktree remove --force "$wt"; rm -f "/tmp/confirm/$id.base" "/tmp/confirm/$id.mut"
