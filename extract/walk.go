package main

import (
	"fmt"
	"go/ast"
	"go/token"
)

func init() { genFiles = append(genFiles, genFile{"Walk.lean", genWalk}) }

// genWalk extracts what decides which files `templ generate` visits and how the per-file handler classifies them:
//   - internal/skipdir.ShouldSkip: the names compared with == and the strings.HasPrefix prefixes;
//   - watcher.WalkFiles: whether ShouldSkip is consulted only for directories below the root (condition `info.IsDir() && path != "." && skipdir.ShouldSkip(..)`);
//   - generatecmd.defaultWatchPattern;
//   - FSEventHandler.HandleEvent: the suffixes tested with strings.HasSuffix(event.Name, ..), in order;
//   - generate: the suffix pair of targetFileName := strings.TrimSuffix(fileName, A) + B.
func genWalk() (string, error) {
	_, f, err := parseFile("internal/skipdir/skipdir.go")
	if err != nil {
		return "", err
	}
	fd := findFunc(f, "ShouldSkip")
	if fd == nil {
		return "", fmt.Errorf("ShouldSkip not found")
	}
	var exact, prefixes []string
	ast.Inspect(fd.Body, func(n ast.Node) bool {
		switch x := n.(type) {
		case *ast.BinaryExpr:
			if x.Op == token.EQL {
				if id, ok := x.X.(*ast.Ident); ok && id.Name == "name" {
					if s, ok := strLit(x.Y); ok {
						exact = append(exact, s)
					}
				}
			}
		case *ast.CallExpr:
			if isSel(x.Fun, "strings", "HasPrefix") && len(x.Args) == 2 {
				if id, ok := x.Args[0].(*ast.Ident); ok && id.Name == "name" {
					if s, ok := strLit(x.Args[1]); ok {
						prefixes = append(prefixes, s)
					}
				}
			}
		}
		return true
	})
	fset, wf, err := parseFile("cmd/templ/generatecmd/watcher/watch.go")
	if err != nil {
		return "", err
	}
	walk := findFunc(wf, "WalkFiles")
	if walk == nil {
		return "", fmt.Errorf("WalkFiles not found")
	}
	var skipConds []string
	ast.Inspect(walk.Body, func(n ast.Node) bool {
		is, ok := n.(*ast.IfStmt)
		if !ok {
			return true
		}
		uses := false
		ast.Inspect(is.Cond, func(m ast.Node) bool {
			if c, ok := m.(*ast.CallExpr); ok && isSel(c.Fun, "skipdir", "ShouldSkip") {
				uses = true
			}
			return true
		})
		if uses {
			skipConds = append(skipConds, exprString(fset, is.Cond))
		}
		return true
	})
	dirsOnly := len(skipConds) == 1 && skipConds[0] == "info.IsDir() && path != \".\" && skipdir.ShouldSkip(absPath)"
	_, cf, err := parseFile("cmd/templ/generatecmd/cmd.go")
	if err != nil {
		return "", err
	}
	pat, ok := strLit(findValueSpec(cf, "defaultWatchPattern"))
	if !ok {
		return "", fmt.Errorf("defaultWatchPattern not found")
	}
	_, ef, err := parseFile("cmd/templ/generatecmd/eventhandler.go")
	if err != nil {
		return "", err
	}
	he := findMethod(ef, "FSEventHandler", "HandleEvent")
	if he == nil {
		return "", fmt.Errorf("HandleEvent not found")
	}
	var suffixes []string
	ast.Inspect(he.Body, func(n ast.Node) bool {
		if c, ok := n.(*ast.CallExpr); ok && isSel(c.Fun, "strings", "HasSuffix") && len(c.Args) == 2 {
			if s, ok := strLit(c.Args[1]); ok {
				suffixes = append(suffixes, s)
			}
		}
		return true
	})
	gen := findMethod(ef, "FSEventHandler", "generate")
	if gen == nil {
		return "", fmt.Errorf("generate not found")
	}
	var target []string
	ast.Inspect(gen.Body, func(n ast.Node) bool {
		as, ok := n.(*ast.AssignStmt)
		if !ok || len(as.Lhs) != 1 || len(as.Rhs) != 1 {
			return true
		}
		if id, ok := as.Lhs[0].(*ast.Ident); !ok || id.Name != "targetFileName" {
			return true
		}
		if be, ok := as.Rhs[0].(*ast.BinaryExpr); ok && be.Op == token.ADD {
			if c, ok := be.X.(*ast.CallExpr); ok && isSel(c.Fun, "strings", "TrimSuffix") && len(c.Args) == 2 {
				a, ok1 := strLit(c.Args[1])
				b, ok2 := strLit(be.Y)
				if ok1 && ok2 {
					target = []string{a, b}
				}
			}
		}
		return true
	})
	s := header("internal/skipdir/skipdir.go, cmd/templ/generatecmd/{watcher/watch.go,cmd.go,eventhandler.go}") + "namespace TemplVerif.Generated\n\n"
	s += "/-- directory names skipped by equality -/\ndef skipExact : List (List UInt8) :=\n  " + leanBytesList(exact) + "\n"
	s += fmt.Sprintf("-- %q\n\n", exact)
	s += "/-- directory names skipped by prefix -/\ndef skipPrefixes : List (List UInt8) :=\n  " + leanBytesList(prefixes) + "\n"
	s += fmt.Sprintf("-- %q\n\n", prefixes)
	s += fmt.Sprintf("/-- WalkFiles consults ShouldSkip exactly once, for directories other than the root: `info.IsDir() && path != \".\" && skipdir.ShouldSkip(absPath)` (found: %q) -/\ndef skipAppliesToDirsOnly : Bool := %v\n\n", skipConds, dirsOnly)
	s += "def defaultWatchPattern : List UInt8 := " + leanBytes(pat) + "\n" + fmt.Sprintf("-- %q\n\n", pat)
	s += "/-- suffixes tested by HandleEvent, in source order -/\ndef handlerSuffixes : List (List UInt8) :=\n  " + leanBytesList(suffixes) + "\n" + fmt.Sprintf("-- %q\n\n", suffixes)
	s += "/-- targetFileName := strings.TrimSuffix(fileName, A) + B -/\ndef targetSuffixes : List (List UInt8) :=\n  " + leanBytesList(target) + "\n" + fmt.Sprintf("-- %q\n\n", target)
	s += "end TemplVerif.Generated\n"
	return s, nil
}
