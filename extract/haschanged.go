package main

import (
	"fmt"
	"go/ast"
	"sort"
)

func init() { genFiles = append(genFiles, genFile{"HasChanged.lean", genHasChanged}) }

// genHasChanged lists what generator.HasChanged compares (selector chains rooted at `previous`) and where the range
// writer suspends its code digest (assignments `skipHash = true`).
func genHasChanged() (string, error) {
	fset, f, err := parseFile("generator/generator.go")
	if err != nil {
		return "", err
	}
	fd := findFunc(f, "HasChanged")
	if fd == nil {
		return "", fmt.Errorf("func HasChanged not found")
	}
	set := map[string]bool{}
	ast.Inspect(fd.Body, func(n ast.Node) bool {
		se, ok := n.(*ast.SelectorExpr)
		if !ok {
			return true
		}
		s := exprString(fset, se)
		if len(s) > 9 && s[:9] == "previous." {
			// keep maximal chains only
			set[s[9:]] = true
		}
		return true
	})
	var fields []string
	for k := range set {
		maximal := true
		for o := range set {
			if o != k && len(o) > len(k) && o[:len(k)] == k && o[len(k)] == '.' {
				maximal = false
			}
		}
		if maximal {
			fields = append(fields, k)
		}
	}
	sort.Strings(fields)
	// where is skipHash switched on?
	var skipSites []string
	for _, file := range []string{"generator/generator.go", "generator/rangewriter.go"} {
		_, ff, err := parseFile(file)
		if err != nil {
			return "", err
		}
		for _, d := range ff.Decls {
			fn, ok := d.(*ast.FuncDecl)
			if !ok || fn.Body == nil {
				continue
			}
			ast.Inspect(fn.Body, func(n ast.Node) bool {
				as, ok := n.(*ast.AssignStmt)
				if !ok || len(as.Lhs) != 1 || len(as.Rhs) != 1 {
					return true
				}
				if se, ok := as.Lhs[0].(*ast.SelectorExpr); ok && se.Sel.Name == "skipHash" {
					if id, ok := as.Rhs[0].(*ast.Ident); ok && id.Name == "true" {
						skipSites = append(skipSites, fn.Name.Name)
					}
				}
				return true
			})
		}
	}
	sort.Strings(skipSites)
	s := header("generator/generator.go, generator/rangewriter.go") + "namespace TemplVerif.Generated\n\n"
	s += "/-- what generator.HasChanged compares between the previous and the updated output -/\ndef hasChangedFields : List (List UInt8) :=\n  " + leanBytesList(fields) + "\n"
	for _, fl := range fields {
		s += "-- " + fl + "\n"
	}
	s += "\n/-- functions that suspend the range writer's code digest (skipHash = true) -/\ndef codeHashSkipSites : List (List UInt8) :=\n  " + leanBytesList(skipSites) + "\n"
	for _, fl := range skipSites {
		s += "-- " + fl + "\n"
	}
	s += "\nend TemplVerif.Generated\n"
	return s, nil
}
