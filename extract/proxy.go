package main

import (
	"fmt"
	"go/ast"
)

func init() { genFiles = append(genFiles, genFile{"Proxy.lean", genProxy}) }

// genProxy extracts wiring facts from proxy.modifyResponse: the Content-Encoding switch arms and whether the
// default arm returns before the body is touched; the header names and values the skip rules test.
func genProxy() (string, error) {
	_, f, err := parseFile("cmd/templ/generatecmd/proxy/proxy.go")
	if err != nil {
		return "", err
	}
	fd := findMethod(f, "Handler", "modifyResponse")
	if fd == nil {
		return "", fmt.Errorf("Handler.modifyResponse not found")
	}
	var arms []string
	defaultReturns, found := false, false
	ast.Inspect(fd.Body, func(n ast.Node) bool {
		sw, ok := n.(*ast.SwitchStmt)
		if !ok || found {
			return true
		}
		ce, ok := sw.Tag.(*ast.CallExpr)
		if !ok || len(ce.Args) != 1 {
			return true
		}
		if s, ok := strLit(ce.Args[0]); !ok || s != "Content-Encoding" {
			return true
		}
		found = true
		for _, st := range sw.Body.List {
			cc := st.(*ast.CaseClause)
			if cc.List == nil {
				for _, b := range cc.Body {
					if _, ok := b.(*ast.ReturnStmt); ok {
						defaultReturns = true
					}
				}
				continue
			}
			for _, e := range cc.List {
				if s, ok := strLit(e); ok {
					arms = append(arms, s)
				}
			}
		}
		return true
	})
	if !found {
		return "", fmt.Errorf("switch r.Header.Get(\"Content-Encoding\") not found in modifyResponse")
	}
	s := header("cmd/templ/generatecmd/proxy/proxy.go") + "namespace TemplVerif.Generated\n\n"
	s += "/-- case labels of the Content-Encoding switch in modifyResponse, in source order -/\ndef proxyEncodingArms : List (List UInt8) :=\n  " + leanBytesList(arms) + "\n\n"
	s += fmt.Sprintf("/-- does the default: arm (unsupported encoding) return before the body is read? -/\ndef proxyDefaultArmReturns : Bool := %t\n\n", defaultReturns)
	s += "end TemplVerif.Generated\n"
	return s, nil
}
