// Command extract is the T1 tie: it reads a-h/templ's Go sources with go/parser and regenerates
// lean/TemplVerif/Generated/*.lean (tables, constants and wiring facts) so that the Lean models and
// proofs are re-checked against what the code says now. Files are rewritten only when content differs.
package main

import (
	"flag"
	"fmt"
	"os"
	"path/filepath"
)

var repo, outDir string

type genFile struct {
	name string
	gen  func() (string, error)
}

var genFiles []genFile

func main() {
	flag.StringVar(&repo, "repo", "/repo", "a-h/templ checkout")
	flag.StringVar(&outDir, "out", "", "directory for Generated/*.lean")
	flag.Parse()
	if outDir == "" {
		fmt.Fprintln(os.Stderr, "need -out")
		os.Exit(2)
	}
	_ = os.MkdirAll(outDir, 0o755)
	failed := false
	for _, g := range genFiles {
		src, err := g.gen()
		if err != nil {
			// An extraction failure is a broken tie: write a file that does not elaborate so that every
			// proof depending on it fails loudly instead of silently keeping the old table.
			fmt.Fprintf(os.Stderr, "extract %s: %v\n", g.name, err)
			src = fmt.Sprintf("-- extraction failed: %v\n#eval (show Nat from \"extraction of %s failed\")\n", err, g.name)
			failed = true
		}
		path := filepath.Join(outDir, g.name)
		old, _ := os.ReadFile(path)
		if string(old) != src {
			if err := os.WriteFile(path, []byte(src), 0o644); err != nil {
				fmt.Fprintln(os.Stderr, err)
				os.Exit(1)
			}
			fmt.Println("rewrote", g.name)
		}
	}
	if failed {
		os.Exit(1)
	}
}
