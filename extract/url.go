package main

import (
	"fmt"
	"go/ast"
)

func init() { genFiles = append(genFiles, genFile{"Url.lean", genURL}) }

// genURL extracts the scheme allow-list (the string arguments of strings.EqualFold in templ.URL)
// and the failure constant from url.go.
func genURL() (string, error) {
	_, f, err := parseFile("url.go")
	if err != nil {
		return "", err
	}
	fd := findFunc(f, "URL")
	if fd == nil {
		return "", fmt.Errorf("func URL not found in url.go")
	}
	var schemes []string
	negated := 0
	total := 0
	ast.Inspect(fd.Body, func(n ast.Node) bool {
		if ue, ok := n.(*ast.UnaryExpr); ok && ue.Op.String() == "!" {
			if ce, ok := ue.X.(*ast.CallExpr); ok && isSel(ce.Fun, "strings", "EqualFold") {
				negated++
			}
		}
		ce, ok := n.(*ast.CallExpr)
		if !ok || !isSel(ce.Fun, "strings", "EqualFold") || len(ce.Args) != 2 {
			return true
		}
		total++
		if s, ok := strLit(ce.Args[1]); ok {
			schemes = append(schemes, s)
		}
		return true
	})
	if len(schemes) == 0 || len(schemes) != total || negated != total {
		return "", fmt.Errorf("templ.URL no longer has the shape !EqualFold(protocol, lit) && ...: %d calls, %d literals, %d negated", total, len(schemes), negated)
	}
	cv := findValueSpec(f, "FailedSanitizationURL")
	ce, ok := cv.(*ast.CallExpr)
	if !ok || len(ce.Args) != 1 {
		return "", fmt.Errorf("FailedSanitizationURL is not SafeURL(\"...\")")
	}
	failed, ok := strLit(ce.Args[0])
	if !ok {
		return "", fmt.Errorf("FailedSanitizationURL is not a string literal")
	}
	s := header("url.go") + "namespace TemplVerif.Generated\n\n"
	s += "/-- The scheme names templ.URL compares the protocol with (strings.EqualFold), in source order. -/\n"
	s += "def urlSchemes : List (List UInt8) :=\n  " + leanBytesList(schemes) + "\n\n"
	s += fmt.Sprintf("/-- templ.FailedSanitizationURL = %q -/\n", failed)
	s += "def failedURL : List UInt8 :=\n  " + leanBytes(failed) + "\n\n"
	s += "end TemplVerif.Generated\n"
	return s, nil
}
