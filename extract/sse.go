package main

import (
	"fmt"
	"go/ast"
	"go/token"
)

func init() { genFiles = append(genFiles, genFile{"Sse.lean", genSse}) }

// genSse extracts two wiring facts from sse/server.go that decide whether a late delivery can panic or leak:
// does ServeHTTP's deferred function close the client's event channel, and does the delivery goroutine started
// by Send select between the send and a done channel.
func genSse() (string, error) {
	_, f, err := parseFile("cmd/templ/generatecmd/sse/server.go")
	if err != nil {
		return "", err
	}
	serve := findMethod(f, "Handler", "ServeHTTP")
	send := findMethod(f, "Handler", "Send")
	if serve == nil || send == nil {
		return "", fmt.Errorf("Handler.ServeHTTP / Handler.Send not found")
	}
	closes := false
	ast.Inspect(serve.Body, func(n ast.Node) bool {
		ds, ok := n.(*ast.DeferStmt)
		if !ok {
			return true
		}
		ast.Inspect(ds.Call, func(m ast.Node) bool {
			if ce, ok := m.(*ast.CallExpr); ok {
				if id, ok := ce.Fun.(*ast.Ident); ok && id.Name == "close" {
					closes = true
				}
			}
			return true
		})
		return true
	})
	goStmts, selectsDone, plainSend := 0, false, false
	selectCases, hasDefault := 0, false
	ast.Inspect(send.Body, func(n ast.Node) bool {
		gs, ok := n.(*ast.GoStmt)
		if !ok {
			return true
		}
		goStmts++
		ast.Inspect(gs.Call, func(m ast.Node) bool {
			switch x := m.(type) {
			case *ast.SelectStmt:
				hasSend, hasRecv := false, false
				for _, c := range x.Body.List {
					cc := c.(*ast.CommClause)
					selectCases++
					if cc.Comm == nil {
						hasDefault = true
					}
					switch s := cc.Comm.(type) {
					case *ast.SendStmt:
						hasSend = true
					case *ast.ExprStmt:
						if u, ok := s.X.(*ast.UnaryExpr); ok && u.Op == token.ARROW {
							hasRecv = true
						}
					case *ast.AssignStmt:
						hasRecv = true
					}
				}
				if hasSend && hasRecv {
					selectsDone = true
				}
				return false
			case *ast.SendStmt:
				plainSend = true
			}
			return true
		})
		return true
	})
	if goStmts != 1 {
		return "", fmt.Errorf("Send no longer starts exactly one kind of delivery goroutine (%d go statements)", goStmts)
	}
	if plainSend {
		selectsDone = false // an unconditional send outside a select can still block forever / hit a closed channel
	}
	s := header("cmd/templ/generatecmd/sse/server.go") + "namespace TemplVerif.Generated\n\n"
	s += fmt.Sprintf("/-- ServeHTTP's deferred function closes the client's event channel -/\ndef sseClosesChannelOnExit : Bool := %t\n\n", closes)
	s += fmt.Sprintf("/-- the delivery goroutine started by Send selects between the send and a done channel (and has no unconditional send) -/\ndef sseDeliverySelectsDone : Bool := %t\n\n", selectsDone)
	s += fmt.Sprintf("/-- number of cases of the delivery goroutine's select (send, client gone - anything else lets a delivery be given up) and whether it has a default -/\ndef sseDeliverySelectCases : Nat := %d\ndef sseDeliverySelectHasDefault : Bool := %t\n\n", selectCases, hasDefault)
	s += "end TemplVerif.Generated\n"
	return s, nil
}
