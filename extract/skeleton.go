package main

import (
	"fmt"
	"go/ast"
	"go/token"
	"hash/fnv"
	"sort"
	"strings"
)

func init() { genFiles = append(genFiles, genFile{"Skeletons.lean", genSkeletons}) }

// A transcription pin. The Lean models of these functions were written by hand from their control flow. The
// skeleton of a function is its control structure and the calls it makes, in source order - no identifiers of local
// variables, no literals, no conditions, no comments, no layout. A model is valid for the code only while the skeleton
// it was transcribed from is the code's: the Props files pin each skeleton's fingerprint, so an edit that changes what
// a function calls or how it branches breaks the pin (and sends the check into its search for a failing input), while
// renaming, re-commenting and re-formatting do not.
type skelTarget struct {
	id, prop, file, recv, name string
}

var skelTargets = []skelTarget{
	{"buffer_WriteString", "C10", "runtime/buffer.go", "Buffer", "WriteString"},
	{"buffer_Write", "C10", "runtime/buffer.go", "Buffer", "Write"},
	{"buffer_Flush", "C10", "runtime/buffer.go", "Buffer", "Flush"},
	{"buffer_Reset", "C14", "runtime/buffer.go", "Buffer", "Reset"},
	{"pool_GetBuffer", "C14", "runtime/bufferpool.go", "", "GetBuffer"},
	{"pool_ReleaseBuffer", "C14", "runtime/bufferpool.go", "", "ReleaseBuffer"},
	{"watch_getWatchedStrings", "C16", "runtime/watchmode.go", "", "getWatchedStrings"},
	{"watch_cacheStrings", "C16", "runtime/watchmode.go", "", "cacheStrings"},
	{"watch_WriteString", "C16", "runtime/watchmode.go", "", "WriteString"},
	{"events_FileWriter", "C15", "cmd/templ/generatecmd/eventhandler.go", "", "FileWriter"},
	{"events_UpsertHash", "C16", "cmd/templ/generatecmd/eventhandler.go", "FSEventHandler", "UpsertHash"},
	{"events_UpsertLastModTime", "C15", "cmd/templ/generatecmd/eventhandler.go", "FSEventHandler", "UpsertLastModTime"},
	{"events_HandleEvent", "C15", "cmd/templ/generatecmd/eventhandler.go", "FSEventHandler", "HandleEvent"},
	{"walk_WalkFiles", "C15", "cmd/templ/generatecmd/watcher/watch.go", "", "WalkFiles"},
	{"sse_Send", "C19", "cmd/templ/generatecmd/sse/server.go", "Handler", "Send"},
	{"sse_ServeHTTP", "C19", "cmd/templ/generatecmd/sse/server.go", "Handler", "ServeHTTP"},
	{"conn_Call", "C18", "lsp/jsonrpc2/conn.go", "conn", "Call"},
	{"conn_Notify", "C18", "lsp/jsonrpc2/conn.go", "conn", "Notify"},
	{"conn_replier", "C18", "lsp/jsonrpc2/conn.go", "conn", "replier"},
	{"conn_run", "C18", "lsp/jsonrpc2/conn.go", "conn", "run"},
	{"conn_write", "C18", "lsp/jsonrpc2/conn.go", "conn", "write"},
	{"stream_Write", "C18", "lsp/jsonrpc2/stream.go", "stream", "Write"},
	{"stream_Read", "C18", "lsp/jsonrpc2/stream.go", "stream", "Read"},
	{"docs_Set", "C17", "cmd/templ/lspcmd/proxy/documentcontents.go", "DocumentContents", "Set"},
	{"docs_Get", "C17", "cmd/templ/lspcmd/proxy/documentcontents.go", "DocumentContents", "Get"},
	{"docs_Delete", "C17", "cmd/templ/lspcmd/proxy/documentcontents.go", "DocumentContents", "Delete"},
	{"docs_Apply", "C17", "cmd/templ/lspcmd/proxy/documentcontents.go", "DocumentContents", "Apply"},
	{"doc_Apply", "C17", "cmd/templ/lspcmd/proxy/documentcontents.go", "Document", "Apply"},
	{"handler_ServeHTTPBuffered", "C11", "handler.go", "ComponentHandler", "ServeHTTPBuffered"},
	{"handler_ServeHTTP", "C11", "handler.go", "ComponentHandler", "ServeHTTP"},
	{"url_URL", "C04", "url.go", "", "URL"},
	{"lspserver_DidChange", "C07", "cmd/templ/lspcmd/proxy/server.go", "Server", "DidChange"},
	{"lspserver_DidOpen", "C07", "cmd/templ/lspcmd/proxy/server.go", "Server", "DidOpen"},
	{"lspserver_parseTemplate", "C07", "cmd/templ/lspcmd/proxy/server.go", "Server", "parseTemplate"},
	{"runtime_EscapeString", "C01", "runtime.go", "", "EscapeString"},
	{"runtime_RenderAttributes", "C01", "runtime.go", "", "RenderAttributes"},
	{"runtime_SanitizeCSS", "C05", "runtime.go", "", "SanitizeCSS"},
	{"safehtml_SanitizeCSS", "C05", "safehtml/style.go", "", "SanitizeCSS"},
	{"safehtml_SanitizeCSSValue", "C05", "safehtml/style.go", "", "SanitizeCSSValue"},
	{"safehtml_SanitizeCSSProperty", "C05", "safehtml/style.go", "", "SanitizeCSSProperty"},
	{"safehtml_sanitizeRegular", "C05", "safehtml/style.go", "", "sanitizeRegular"},
	{"safehtml_sanitizeBackgroundImage", "C05", "safehtml/style.go", "", "sanitizeBackgroundImage"},
	{"safehtml_sanitizeFontFamily", "C05", "safehtml/style.go", "", "sanitizeFontFamily"},
	{"safehtml_sanitizeEnum", "C05", "safehtml/style.go", "", "sanitizeEnum"},
	{"safehtml_urlIsSafe", "C05", "safehtml/style.go", "", "urlIsSafe"},
	{"styleattr_sanitizeStyleAttributeValue", "C05", "runtime/styleattribute.go", "", "sanitizeStyleAttributeValue"},
	{"once_Once", "C12", "once.go", "OnceHandle", "Once"},
	{"css_renderCSSItemsToBuilder", "C12", "runtime.go", "", "renderCSSItemsToBuilder"},
	{"script_RenderScriptItems", "C12", "scripttemplate.go", "", "RenderScriptItems"},
	{"proxy_modifyResponse", "C20", "cmd/templ/generatecmd/proxy/proxy.go", "Handler", "modifyResponse"},
	{"proxy_parseNonce", "C20", "cmd/templ/generatecmd/proxy/proxy.go", "", "parseNonce"},
	{"proxy_insertScript", "C20", "cmd/templ/generatecmd/proxy/proxy.go", "", "insertScriptTagIntoBody"},
	{"gen_writeChildrenExpression", "C13", "generator/generator.go", "generator", "writeChildrenExpression"},
	{"gen_writeTemplElementExpression", "C13", "generator/generator.go", "generator", "writeTemplElementExpression"},
	{"gen_writeBlockTemplElementExpression", "C13", "generator/generator.go", "generator", "writeBlockTemplElementExpression"},
	{"gen_writeCallTemplateExpression", "C13", "generator/generator.go", "generator", "writeCallTemplateExpression"},
	{"rt_WithChildren", "C13", "runtime.go", "", "WithChildren"},
	{"rt_ClearChildren", "C13", "runtime.go", "", "ClearChildren"},
	{"rt_GetChildren", "C13", "runtime.go", "", "GetChildren"},
	{"flush_Render", "C13", "flush.go", "FlushComponent", "Render"},
	{"join_Join", "C13", "join.go", "", "Join"},
	{"script_jsonEncodeParam", "C03", "scripttemplate.go", "", "jsonEncodeParam"},
	{"scriptel_scriptContent", "C03", "runtime/scriptelement.go", "", "scriptContent"},
}

func skeletonOf(fset *token.FileSet, fd *ast.FuncDecl) string {
	var b strings.Builder
	var walk func(n ast.Node)
	calls := func(n ast.Node) {
		// the calls inside an expression / simple statement, in source order; function literals are walked as bodies
		ast.Inspect(n, func(m ast.Node) bool {
			switch x := m.(type) {
			case *ast.FuncLit:
				b.WriteString("func{")
				walk(x.Body)
				b.WriteString("}")
				return false
			case *ast.CallExpr:
				if _, lit := x.Fun.(*ast.FuncLit); lit {
					b.WriteString("call-literal;") // the literal itself is walked next
				} else {
					b.WriteString(exprSrc(fset, x.Fun) + "();")
				}
			}
			return true
		})
	}
	walk = func(n ast.Node) {
		switch x := n.(type) {
		case nil:
		case *ast.BlockStmt:
			if x == nil {
				return
			}
			for _, st := range x.List {
				walk(st)
			}
		case *ast.IfStmt:
			b.WriteString("if{")
			if x.Init != nil {
				calls(x.Init)
			}
			calls(x.Cond)
			walk(x.Body)
			b.WriteString("}")
			if x.Else != nil {
				b.WriteString("else{")
				walk(x.Else)
				b.WriteString("}")
			}
		case *ast.ForStmt:
			b.WriteString("for{")
			if x.Init != nil {
				calls(x.Init)
			}
			if x.Cond != nil {
				calls(x.Cond)
			}
			if x.Post != nil {
				calls(x.Post)
			}
			walk(x.Body)
			b.WriteString("}")
		case *ast.RangeStmt:
			b.WriteString("range " + exprSrc(fset, x.X) + "{")
			walk(x.Body)
			b.WriteString("}")
		case *ast.SwitchStmt:
			b.WriteString("switch{")
			if x.Init != nil {
				calls(x.Init)
			}
			if x.Tag != nil {
				calls(x.Tag)
			}
			walk(x.Body)
			b.WriteString("}")
		case *ast.TypeSwitchStmt:
			b.WriteString("typeswitch{")
			walk(x.Body)
			b.WriteString("}")
		case *ast.CaseClause:
			if x.List == nil {
				b.WriteString("default{")
			} else {
				var ts []string
				for _, e := range x.List {
					ts = append(ts, exprSrc(fset, e))
				}
				b.WriteString("case " + strings.Join(ts, ",") + "{")
			}
			for _, st := range x.Body {
				walk(st)
			}
			b.WriteString("}")
		case *ast.SelectStmt:
			b.WriteString("select{")
			walk(x.Body)
			b.WriteString("}")
		case *ast.CommClause:
			switch c := x.Comm.(type) {
			case nil:
				b.WriteString("default{")
			case *ast.SendStmt:
				b.WriteString("send " + exprSrc(fset, c.Chan) + "{")
			default:
				b.WriteString("recv{")
				calls(c)
			}
			for _, st := range x.Body {
				walk(st)
			}
			b.WriteString("}")
		case *ast.GoStmt:
			b.WriteString("go ")
			calls(x.Call)
		case *ast.DeferStmt:
			b.WriteString("defer ")
			calls(x.Call)
		case *ast.ReturnStmt:
			b.WriteString("return;")
			calls(x)
		case *ast.SendStmt:
			b.WriteString("send " + exprSrc(fset, x.Chan) + ";")
		case *ast.LabeledStmt:
			walk(x.Stmt)
		case *ast.BranchStmt:
			b.WriteString(x.Tok.String() + ";")
		default:
			calls(n)
		}
	}
	walk(fd.Body)
	return b.String()
}

// skelAuto: every function of a file that matches (receiver, name prefix) gets a pin for the listed properties.
type skelAuto struct {
	idPrefix, props, file, recv, namePrefix string
}

var skelAutos = []skelAuto{
	{"gen_", "C02", "generator/generator.go", "generator", "write"},                       // the statements the generator emits (model: Gen)
	{"rw_", "C07", "generator/rangewriter.go", "RangeWriter", ""},                          // position tracking (model: Pos.advance)
	{"sm_", "C07", "parser/v2/sourcemap.go", "SourceMap", ""},                              // the tables (model: SourceMap)
	{"goexpr_", "C06", "parser/v2/goexpression/parse.go", "-", ""},                         // expression extents (ranges)
	{"fmt_", "C08,C09", "parser/v2/types.go", "*", "Write"},                                // the formatter's writers (model: Printer, fragment)
}

func expandAutos() ([]skelTarget, error) {
	var out []skelTarget
	for _, a := range skelAutos {
		_, f, err := parseFile(a.file)
		if err != nil {
			return nil, err
		}
		for _, d := range f.Decls {
			fd, ok := d.(*ast.FuncDecl)
			if !ok || fd.Body == nil || !strings.HasPrefix(fd.Name.Name, a.namePrefix) {
				continue
			}
			recv := ""
			if fd.Recv != nil && len(fd.Recv.List) > 0 {
				t := fd.Recv.List[0].Type
				if st, ok := t.(*ast.StarExpr); ok {
					t = st.X
				}
				if id, ok := t.(*ast.Ident); ok {
					recv = id.Name
				}
			}
			switch a.recv {
			case "-":
				if recv != "" {
					continue
				}
			case "*":
				if recv == "" || fd.Name.Name != a.namePrefix {
					continue
				}
			default:
				if recv != a.recv {
					continue
				}
			}
			id := a.idPrefix + fd.Name.Name
			if a.recv == "*" {
				id = a.idPrefix + recv
			}
			for _, p := range strings.Split(a.props, ",") {
				out = append(out, skelTarget{id, p, a.file, recv, fd.Name.Name})
			}
		}
	}
	return out, nil
}

func genSkeletons() (string, error) {
	type parsed struct {
		fset *token.FileSet
		f    *ast.File
	}
	files := map[string]parsed{}
	out := "-- GENERATED by /verif/extract on every check run: transcription pins. Do not edit.\n" +
		"-- The skeleton of a function is its control structure and the calls it makes, in source order (extract/skeleton.go).\n" +
		"namespace TemplVerif.Generated\n\n"
	ts := append([]skelTarget{}, skelTargets...)
	autos, err := expandAutos()
	if err != nil {
		return "", err
	}
	ts = append(ts, autos...)
	sort.SliceStable(ts, func(i, j int) bool { return ts[i].id < ts[j].id })
	// the same function pinned for several properties: one definition, all properties listed
	propsOf := map[string]string{}
	for _, t := range ts {
		if propsOf[t.id] == "" {
			propsOf[t.id] = t.prop
		} else if !strings.Contains(propsOf[t.id], t.prop) {
			propsOf[t.id] += "," + t.prop
		}
	}
	done := map[string]bool{}
	for _, t := range ts {
		if done[t.id] {
			continue
		}
		done[t.id] = true
		t.prop = propsOf[t.id]
		p, ok := files[t.file]
		if !ok {
			fset, f, err := parseFile(t.file)
			if err != nil {
				return "", err
			}
			p = parsed{fset, f}
			files[t.file] = p
		}
		var fd *ast.FuncDecl
		if t.recv == "" {
			fd = findFunc(p.f, t.name)
			if fd != nil && fd.Recv != nil {
				fd = nil
			}
		} else {
			fd = findMethod(p.f, t.recv, t.name)
		}
		skel := "<function not found>"
		if fd != nil && fd.Body != nil {
			skel = skeletonOf(p.fset, fd)
		}
		h := fnv.New64a()
		h.Write([]byte(skel))
		where := t.name
		if t.recv != "" {
			where = t.recv + "." + t.name
		}
		out += fmt.Sprintf("/-- [%s] %s %s: %s -/\ndef skel_%s : Nat := %d\n\n", t.prop, t.file, where, strings.ReplaceAll(skel, "-/", "- /"), t.id, h.Sum64())
	}
	out += "end TemplVerif.Generated\n"
	return out, nil
}
