package main

import (
	"bytes"
	"fmt"
	"go/ast"
	"go/printer"
	"go/token"
)

func init() { genFiles = append(genFiles, genFile{"HandlerFacts.lean", genHandler}) }

func exprString(fset *token.FileSet, n ast.Node) string {
	var b bytes.Buffer
	_ = printer.Fprint(&b, fset, n)
	return b.String()
}

func mentions(n ast.Node, name string) bool {
	found := false
	ast.Inspect(n, func(m ast.Node) bool {
		if id, ok := m.(*ast.Ident); ok && id.Name == name {
			found = true
		}
		return true
	})
	return found
}

// genHandler extracts statement-order facts from ComponentHandler.ServeHTTPBuffered.
func genHandler() (string, error) {
	fset, f, err := parseFile("handler.go")
	if err != nil {
		return "", err
	}
	fd := findMethod(f, "ComponentHandler", "ServeHTTPBuffered")
	if fd == nil {
		return "", fmt.Errorf("ComponentHandler.ServeHTTPBuffered not found")
	}
	renderIdx := -1
	touchesBefore := false
	var errIf *ast.IfStmt
	for i, st := range fd.Body.List {
		isRender := false
		ast.Inspect(st, func(n ast.Node) bool {
			if ce, ok := n.(*ast.CallExpr); ok {
				if se, ok := ce.Fun.(*ast.SelectorExpr); ok && se.Sel.Name == "Render" {
					isRender = true
				}
			}
			return true
		})
		if isRender && renderIdx < 0 {
			renderIdx = i
			continue
		}
		if renderIdx < 0 && mentions(st, "w") {
			touchesBefore = true
		}
		if renderIdx >= 0 && errIf == nil {
			if is, ok := st.(*ast.IfStmt); ok && mentions(is.Cond, "err") {
				errIf = is
			}
		}
	}
	if renderIdx < 0 || errIf == nil {
		return "", fmt.Errorf("ServeHTTPBuffered: Render call or the following `if err ...` not found")
	}
	var uses []string
	ast.Inspect(errIf.Body, func(n ast.Node) bool {
		es, ok := n.(*ast.ExprStmt)
		if ok && mentions(es, "w") {
			uses = append(uses, exprString(fset, es.X))
			return false
		}
		if as, ok := n.(*ast.AssignStmt); ok && mentions(as, "w") {
			uses = append(uses, exprString(fset, as))
			return false
		}
		return true
	})
	msg, ok := strLit(findValueSpec(f, "componentHandlerErrorMessage"))
	if !ok {
		return "", fmt.Errorf("componentHandlerErrorMessage not a literal")
	}
	s := header("handler.go") + "namespace TemplVerif.Generated\n\n"
	s += fmt.Sprintf("/-- a statement of ServeHTTPBuffered mentions the ResponseWriter before Component.Render is called -/\ndef handlerTouchesWriterBeforeRender : Bool := %t\n\n", touchesBefore)
	cond := exprString(fset, errIf.Cond)
	s += fmt.Sprintf("/-- condition guarding the error branch: %q -/\ndef handlerErrCond : List UInt8 :=\n  %s\n\n", cond, leanBytes(cond))
	s += "/-- statements of the error branch that use the ResponseWriter, in order -/\ndef handlerErrPathWriterUses : List (List UInt8) :=\n  " + leanBytesList(uses) + "\n\n"
	for _, u := range uses {
		s += "-- " + u + "\n"
	}
	s += fmt.Sprintf("\n/-- componentHandlerErrorMessage = %q -/\ndef handlerErrorMessage : List UInt8 :=\n  %s\n\n", msg, leanBytes(msg))
	s += "end TemplVerif.Generated\n"
	return s, nil
}
