package main

import (
	"fmt"
	"go/ast"
	"sort"
)

func init() { genFiles = append(genFiles, genFile{"Css.lean", genCSS}) }

func regexSrc(f *ast.File, name string) (string, error) {
	e := findValueSpec(f, name)
	ce, ok := e.(*ast.CallExpr)
	if !ok || !isSel(ce.Fun, "regexp", "MustCompile") || len(ce.Args) != 1 {
		return "", fmt.Errorf("%s is not regexp.MustCompile(lit)", name)
	}
	s, ok := strLit(ce.Args[0])
	if !ok {
		return "", fmt.Errorf("%s pattern is not a literal", name)
	}
	return s, nil
}

func strSlice(f *ast.File, name string) ([]string, error) {
	e := findValueSpec(f, name)
	cl, ok := e.(*ast.CompositeLit)
	if !ok {
		return nil, fmt.Errorf("%s is not a composite literal", name)
	}
	var out []string
	for _, el := range cl.Elts {
		s, ok := strLit(el)
		if !ok {
			return nil, fmt.Errorf("%s has a non-literal element", name)
		}
		out = append(out, s)
	}
	return out, nil
}

// containsAnyArgs lists the literal character sets passed to strings.ContainsAny inside a function, in source order.
func containsAnyArgs(fd *ast.FuncDecl) []string {
	var out []string
	ast.Inspect(fd.Body, func(n ast.Node) bool {
		ce, ok := n.(*ast.CallExpr)
		if ok && isSel(ce.Fun, "strings", "ContainsAny") && len(ce.Args) == 2 {
			if s, ok := strLit(ce.Args[1]); ok {
				out = append(out, s)
			}
		}
		return true
	})
	return out
}

func genCSS() (string, error) {
	_, f, err := parseFile("safehtml/style.go")
	if err != nil {
		return "", err
	}
	// the property -> sanitizer map
	e := findValueSpec(f, "cssPropertyNameToValueSanitizer")
	cl, ok := e.(*ast.CompositeLit)
	if !ok {
		return "", fmt.Errorf("cssPropertyNameToValueSanitizer is not a composite literal")
	}
	type ent struct{ k, v string }
	var ents []ent
	for _, el := range cl.Elts {
		kv, ok := el.(*ast.KeyValueExpr)
		if !ok {
			return "", fmt.Errorf("map element is not key: value")
		}
		k, ok1 := strLit(kv.Key)
		id, ok2 := kv.Value.(*ast.Ident)
		if !ok1 || !ok2 {
			return "", fmt.Errorf("map entry is not \"name\": sanitizerFunc")
		}
		ents = append(ents, ent{k, id.Name})
	}
	sort.Slice(ents, func(i, j int) bool { return ents[i].k < ents[j].k })
	s := header("safehtml/style.go") + "namespace TemplVerif.Generated\n\n"
	s += "/-- cssPropertyNameToValueSanitizer: (property, name of the sanitizer function), sorted by property. -/\ndef cssSanitizers : List (List UInt8 × List UInt8) := [\n"
	for i, en := range ents {
		sep := ","
		if i == len(ents)-1 {
			sep = ""
		}
		s += fmt.Sprintf("  (%s, %s)%s -- %q: %s\n", leanBytes(en.k), leanBytes(en.v), sep, en.k, en.v)
	}
	s += "]\n\n"
	for _, n := range []string{"validURLPrefixes", "validURLSuffixes"} {
		xs, err := strSlice(f, n)
		if err != nil {
			return "", err
		}
		s += fmt.Sprintf("def %s : List (List UInt8) :=\n  %s\n\n", n, leanBytesList(xs))
	}
	for _, n := range []string{"identifierPattern", "genericFontFamilyName", "safeRegularPropertyValuePattern", "safeEnumPropertyValuePattern"} {
		src, err := regexSrc(f, n)
		if err != nil {
			return "", err
		}
		s += fmt.Sprintf("/-- %s = regexp.MustCompile(%q) -/\ndef %sSrc : List UInt8 :=\n  %s\n\n", n, src, n, leanBytes(src))
	}
	for _, n := range []string{"InnocuousPropertyName", "InnocuousPropertyValue"} {
		v, ok := strLit(findValueSpec(f, n))
		if !ok {
			return "", fmt.Errorf("%s is not a string literal", n)
		}
		s += fmt.Sprintf("/-- %s = %q -/\ndef css%s : List UInt8 :=\n  %s\n\n", n, v, n, leanBytes(v))
	}
	ws, ok := strLit(findValueSpec(f, "cssWhitespace"))
	if !ok {
		return "", fmt.Errorf("cssWhitespace constant not found")
	}
	s += fmt.Sprintf("/-- cssWhitespace = %q (the cutset both sanitisers trim comma parts with) -/\ndef cssWhitespace : List UInt8 :=\n  %s\n\n", ws, leanBytes(ws))
	for _, fn := range []string{"sanitizeBackgroundImage", "sanitizeFontFamily"} {
		if fd := findFunc(f, fn); fd != nil {
			// the trim call must be strings.Trim(x, cssWhitespace)
			n := 0
			ast.Inspect(fd.Body, func(nd ast.Node) bool {
				if ce, ok := nd.(*ast.CallExpr); ok && isSel(ce.Fun, "strings", "Trim") && len(ce.Args) == 2 {
					if id, ok := ce.Args[1].(*ast.Ident); ok && id.Name == "cssWhitespace" {
						n++
					}
				}
				if ce, ok := nd.(*ast.CallExpr); ok && (isSel(ce.Fun, "strings", "TrimSpace") || isSel(ce.Fun, "strings", "TrimFunc")) {
					n = -100
				}
				return true
			})
			if n != 1 {
				return "", fmt.Errorf("%s no longer trims its comma parts with strings.Trim(_, cssWhitespace) exactly once", fn)
			}
		}
	}
	for _, fn := range []string{"sanitizeBackgroundImage", "sanitizeFontFamily"} {
		fd := findFunc(f, fn)
		if fd == nil {
			return "", fmt.Errorf("func %s not found", fn)
		}
		s += fmt.Sprintf("/-- character sets passed to strings.ContainsAny inside %s, in source order -/\ndef %sContainsAny : List (List UInt8) :=\n  %s\n\n", fn, fn, leanBytesList(containsAnyArgs(fd)))
	}
	s += "end TemplVerif.Generated\n"
	return s, nil
}
