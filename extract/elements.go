package main

import (
	"fmt"
	"go/ast"
	"go/token"
	"sort"
)

func init() { genFiles = append(genFiles, genFile{"Elements.lean", genElements}) }

func mapKeys(e ast.Expr) ([]string, error) {
	cl, ok := e.(*ast.CompositeLit)
	if !ok {
		return nil, fmt.Errorf("not a composite literal")
	}
	var keys []string
	for _, el := range cl.Elts {
		kv, ok := el.(*ast.KeyValueExpr)
		if !ok {
			return nil, fmt.Errorf("not a key/value element")
		}
		s, ok := strLit(kv.Key)
		if !ok {
			return nil, fmt.Errorf("key is not a string literal")
		}
		keys = append(keys, s)
	}
	sort.Strings(keys)
	return keys, nil
}

// genElements: the element classification tables of parser/v2/types.go and the attribute-kind decisions of
// generator.writeExpressionAttribute / isScriptAttribute / writeAttributeCSS.
func genElements() (string, error) {
	_, f, err := parseFile("parser/v2/types.go")
	if err != nil {
		return "", err
	}
	void, err := mapKeys(findValueSpec(f, "voidElements"))
	if err != nil {
		return "", fmt.Errorf("voidElements: %v", err)
	}
	block, err := mapKeys(findValueSpec(f, "blockElements"))
	if err != nil {
		return "", fmt.Errorf("blockElements: %v", err)
	}
	fset, g, err := parseFile("generator/generator.go")
	if err != nil {
		return "", err
	}
	isa := findFunc(g, "isScriptAttribute")
	if isa == nil {
		return "", fmt.Errorf("isScriptAttribute not found")
	}
	var prefixes []string
	ast.Inspect(isa.Body, func(n ast.Node) bool {
		if cl, ok := n.(*ast.CompositeLit); ok {
			for _, el := range cl.Elts {
				if s, ok := strLit(el); ok {
					prefixes = append(prefixes, s)
				}
			}
		}
		return true
	})
	wea := findMethod(g, "generator", "writeExpressionAttribute")
	if wea == nil {
		return "", fmt.Errorf("writeExpressionAttribute not found")
	}
	// the if / else-if chain choosing the value writer: record each condition and the writer called in its body
	var chain []string
	var walk func(s ast.Stmt)
	walk = func(s ast.Stmt) {
		is, ok := s.(*ast.IfStmt)
		if !ok {
			if bs, ok := s.(*ast.BlockStmt); ok {
				chain = append(chain, "else => "+firstCall(bs))
			}
			return
		}
		chain = append(chain, exprString(fset, is.Cond)+" => "+firstCall(is.Body))
		if is.Else != nil {
			walk(is.Else)
		}
	}
	for _, st := range wea.Body.List {
		if is, ok := st.(*ast.IfStmt); ok && is.Init == nil && is.Else != nil {
			walk(is)
		}
	}
	wac := findMethod(g, "generator", "writeAttributeCSS")
	if wac == nil {
		return "", fmt.Errorf("writeAttributeCSS not found")
	}
	cssName := ""
	ast.Inspect(wac.Body, func(n ast.Node) bool {
		if be, ok := n.(*ast.BinaryExpr); ok && be.Op == token.NEQ {
			if id, ok := be.X.(*ast.Ident); ok && id.Name == "name" {
				if s, ok := strLit(be.Y); ok {
					cssName = s
				}
			}
		}
		return true
	})
	iit := findFunc(g, "isInlineOrText")
	if iit == nil {
		return "", fmt.Errorf("isInlineOrText not found")
	}
	var inlineCases []string
	ast.Inspect(iit.Body, func(n ast.Node) bool {
		if cc, ok := n.(*ast.CaseClause); ok {
			for _, e := range cc.List {
				ret := ""
				if len(cc.Body) == 1 {
					if rs, ok := cc.Body[0].(*ast.ReturnStmt); ok && len(rs.Results) == 1 {
						ret = exprString(fset, rs.Results[0])
					}
				}
				inlineCases = append(inlineCases, exprString(fset, e)+" => "+ret)
			}
		}
		return true
	})
	s := header("parser/v2/types.go, generator/generator.go") + "namespace TemplVerif.Generated\n\n"
	s += "def voidElements : List (List UInt8) :=\n  " + leanBytesList(void) + "\n" + fmt.Sprintf("-- %q\n\n", void)
	s += "def blockElements : List (List UInt8) :=\n  " + leanBytesList(block) + "\n" + fmt.Sprintf("-- %q\n\n", block)
	s += "def scriptAttrPrefixes : List (List UInt8) :=\n  " + leanBytesList(prefixes) + "\n" + fmt.Sprintf("-- %q\n\n", prefixes)
	s += "/-- writeExpressionAttribute: condition => value writer, in source order -/\ndef exprAttrChain : List (List UInt8) :=\n  " + leanBytesList(chain) + "\n"
	for _, c := range chain {
		s += "-- " + c + "\n"
	}
	s += "\n/-- writeAttributeCSS hoists expression attributes with this name -/\ndef cssAttrName : List UInt8 := " + leanBytes(cssName) + "\n" + fmt.Sprintf("-- %q\n\n", cssName)
	s += "/-- isInlineOrText: case => result, in source order -/\ndef inlineOrTextCases : List (List UInt8) :=\n  " + leanBytesList(inlineCases) + "\n"
	for _, c := range inlineCases {
		s += "-- " + c + "\n"
	}
	s += "\nend TemplVerif.Generated\n"
	return s, nil
}

func firstCall(b *ast.BlockStmt) string {
	name := ""
	ast.Inspect(b, func(n ast.Node) bool {
		if name != "" {
			return false
		}
		if c, ok := n.(*ast.CallExpr); ok {
			if se, ok := c.Fun.(*ast.SelectorExpr); ok {
				name = se.Sel.Name
			}
		}
		return true
	})
	return name
}
