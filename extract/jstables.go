package main

import (
	"fmt"
	"go/ast"
	"go/token"
	"strconv"
)

func init() { genFiles = append(genFiles, genFile{"JsTables.lean", genJsTables}) }

// tableOf evaluates a `[]string{ idx: "v", ... }` composite literal (int or rune keys, implicit successor keys).
func tableOf(e ast.Expr) ([]string, error) {
	cl, ok := e.(*ast.CompositeLit)
	if !ok {
		return nil, fmt.Errorf("not a composite literal")
	}
	vals := map[int]string{}
	next, max := 0, -1
	for _, el := range cl.Elts {
		var ve ast.Expr = el
		if kv, ok := el.(*ast.KeyValueExpr); ok {
			ve = kv.Value
			switch k := kv.Key.(type) {
			case *ast.BasicLit:
				if k.Kind == token.INT {
					n, err := strconv.ParseInt(k.Value, 0, 32)
					if err != nil {
						return nil, err
					}
					next = int(n)
				} else if k.Kind == token.CHAR {
					r, _, _, err := strconv.UnquoteChar(k.Value[1:len(k.Value)-1], '\'')
					if err != nil {
						return nil, err
					}
					next = int(r)
				} else {
					return nil, fmt.Errorf("unsupported key %s", k.Value)
				}
			default:
				return nil, fmt.Errorf("unsupported key expression")
			}
		}
		s, ok := strLit(ve)
		if !ok {
			return nil, fmt.Errorf("non-literal table value")
		}
		vals[next] = s
		if next > max {
			max = next
		}
		next++
	}
	out := make([]string, max+1)
	for i, v := range vals {
		out[i] = v
	}
	return out, nil
}

func genJsTables() (string, error) {
	_, f, err := parseFile("runtime/scriptelement.go")
	if err != nil {
		return "", err
	}
	s := header("runtime/scriptelement.go") + "namespace TemplVerif.Generated\n\n"
	for _, name := range []string{"lowUnicodeReplacementTable", "jsStrReplacementTable"} {
		e := findValueSpec(f, name)
		if e == nil {
			return "", fmt.Errorf("%s not found", name)
		}
		t, err := tableOf(e)
		if err != nil {
			return "", fmt.Errorf("%s: %v", name, err)
		}
		s += fmt.Sprintf("/-- runtime.%s as a dense list (index = rune; [] = no entry). -/\ndef %s : List (List UInt8) := [\n", name, name)
		for i, v := range t {
			sep := ","
			if i == len(t)-1 {
				sep = ""
			}
			s += fmt.Sprintf("  %s%s -- %d %q\n", leanBytes(v), sep, i, v)
		}
		s += "]\n\n"
	}
	s += "end TemplVerif.Generated\n"
	return s, nil
}
