module verif/extract

go 1.23.0
