package main

import (
	"fmt"
	"go/ast"
	"go/token"
	"sort"
	"strings"
)

func init() { genFiles = append(genFiles, genFile{"Sinks.lean", genSinks}) }

// flatten turns a string-concatenation expression into its text with one 0 byte per non-literal operand.
func flatten(e ast.Expr) (string, bool) {
	switch x := e.(type) {
	case *ast.BasicLit:
		if x.Kind == token.STRING {
			s, ok := strLit(x)
			return s, ok
		}
	case *ast.BinaryExpr:
		if x.Op == token.ADD {
			l, lok := flatten(x.X)
			r, rok := flatten(x.Y)
			if !lok {
				l = "\x00"
			}
			if !rok {
				r = "\x00"
			}
			if lok || rok {
				return l + r, true
			}
		}
	case *ast.ParenExpr:
		return flatten(x.X)
	}
	return "", false
}

// genSinks lists every piece of generated-code text in generator/generator.go that writes a dynamic value
// to the output buffer (`_Buffer.WriteString(` followed by a non-literal operand), with the name of the
// generator method that emits it. The Lean side classifies the wrapper applied to the dynamic operand.
func genSinks() (string, error) {
	_, f, err := parseFile("generator/generator.go")
	if err != nil {
		return "", err
	}
	type sink struct{ fn, text string }
	var sinks []sink
	for _, d := range f.Decls {
		fd, ok := d.(*ast.FuncDecl)
		if !ok || fd.Body == nil {
			continue
		}
		seen := map[ast.Expr]bool{}
		ast.Inspect(fd.Body, func(n ast.Node) bool {
			be, ok := n.(*ast.BinaryExpr)
			if !ok || seen[be] {
				return true
			}
			// mark the whole concatenation tree so that sub-concatenations are not reported again
			var mark func(e ast.Expr)
			mark = func(e ast.Expr) {
				if b, ok := e.(*ast.BinaryExpr); ok && b.Op == token.ADD {
					seen[b] = true
					mark(b.X)
					mark(b.Y)
				}
			}
			mark(be)
			txt, ok := flatten(be)
			if ok && strings.Contains(txt, "_Buffer.WriteString(") && strings.Contains(txt, "\x00") {
				sinks = append(sinks, sink{fd.Name.Name, txt})
			}
			return true
		})
	}
	if len(sinks) == 0 {
		return "", fmt.Errorf("no dynamic _Buffer.WriteString sinks found in generator.go (shape changed)")
	}
	sort.SliceStable(sinks, func(i, j int) bool { return sinks[i].fn < sinks[j].fn })
	s := header("generator/generator.go") + "namespace TemplVerif.Generated\n\n"
	s += "structure Sink where\n  fn : List UInt8     -- generator method emitting the code\n  text : List UInt8   -- emitted Go text; a 0 byte stands for a dynamic operand (variable name)\n\n"
	s += "def sinks : List Sink := [\n"
	for i, k := range sinks {
		s += fmt.Sprintf("  -- %s: %q\n  ⟨%s,\n   %s⟩", k.fn, k.text, leanBytes(k.fn), leanBytes(k.text))
		if i < len(sinks)-1 {
			s += ","
		}
		s += "\n"
	}
	s += "]\n\nend TemplVerif.Generated\n"
	return s, nil
}
